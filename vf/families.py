"""
Spec families built on a fixed list of selection skeletons (DESIGN.md 3.1): CON (connectors,
grouping nodes, connection choices), DV (design-variable nodes), CC (choice constraints),
MET (metric nodes).  Every family is enumerated completely for its tier.
"""
import copy
import itertools

SKELETONS = {
    'none': dict(starts=['a'], nodes=[], edges=[], choices=[], incompat=[]),
    'one': dict(starts=['a'], nodes=['o1', 'o2'], edges=[], choices=[['C0', 'a', ['o1', 'o2']]], incompat=[]),
    'indep': dict(starts=['a'], nodes=['o1', 'o2', 'p1', 'p2'], edges=[],
                  choices=[['C0', 'a', ['o1', 'o2']], ['C1', 'a', ['p1', 'p2']]], incompat=[]),
    'nested': dict(starts=['a'], nodes=['o1', 'o2', 'q1', 'q2'], edges=[],
                   choices=[['C0', 'a', ['o1', 'o2']], ['C1', 'o1', ['q1', 'q2']]], incompat=[]),
    'mutex': dict(starts=['a'], nodes=['o1', 'o2', 'q1', 'q2', 'r1', 'r2'], edges=[],
                  choices=[['C0', 'a', ['o1', 'o2']], ['C1', 'o1', ['q1', 'q2']], ['C2', 'o2', ['r1', 'r2']]],
                  incompat=[]),
    'three': dict(starts=['a'], nodes=['o1', 'o2', 'o3'], edges=[], choices=[['C0', 'a', ['o1', 'o2', 'o3']]],
                  incompat=[]),
}

ANCHORS = {
    'none': ['a'],
    'one': ['a', 'o1', 'o2'],
    'indep': ['a', 'o1', 'p1'],
    'nested': ['a', 'o1', 'q1', 'o2'],
    'mutex': ['a', 'o1', 'q1', 'r1'],
    'three': ['a', 'o1', 'o2', 'o3'],
}

D_Q = ['1', '0..1', '1..*', '0..*']
D_T = ['1', '0..1', '1..2', '0,2', '2', '0..*', '1..*']


def skel(name):
    return copy.deepcopy(SKELETONS[name])


def _conn_spec(sk_name, srcs, tgts, grp=None, excl=None):
    """srcs/tgts: list of (deg, rep, anchor).  grp: None | ('src'|'tgt') -> the two nodes of that
    side are members of a grouping node which takes their place in the connection choice."""
    spec = skel(sk_name)
    spec['conn'] = {}
    sn, tn = [], []
    for i, (deg, rep, anchor) in enumerate(srcs):
        spec['conn'][f'S{i+1}'] = dict(deg=deg, rep=rep, anchor=anchor)
        sn.append(f'S{i+1}')
    for i, (deg, rep, anchor) in enumerate(tgts):
        spec['conn'][f'T{i+1}'] = dict(deg=deg, rep=rep, anchor=anchor)
        tn.append(f'T{i+1}')
    if grp == 'src':
        spec['grp'] = {'G': list(sn)}
        sn = ['G']
    elif grp == 'tgt':
        spec['grp'] = {'G': list(tn)}
        tn = ['G']
    spec['cch'] = [['K0', sn, tn, [list(e) for e in (excl or [])]]]
    return spec


def con1(tier):
    """Connection-choice graphs: skeletons x 1-2 sources x 1-2 targets x degrees x anchors,
    <= 1 grouping node, <= 1 exclusion."""
    if tier == 'quick':
        sks, D = ['one'], D_Q
    else:
        sks, D = ['none', 'one', 'nested'], D_T
    for sk in sks:
        anchors = ANCHORS[sk][:3]
        types_norep = [(d, False, a) for d in D for a in anchors]
        # 1x1: all degrees x rep x anchors on both sides
        types_rep = [(d, r, a) for d in D for r in (False, True) for a in anchors]
        for s in types_rep:
            for t in types_rep:
                if tier == 'quick' and s[1] != t[1]:
                    continue
                yield _conn_spec(sk, [s], [t])
                if s[2] == 'a' or t[2] == 'a':
                    yield _conn_spec(sk, [s], [t], excl=[('S1', 'T1')])
        # 1x2 / 2x1: single node permanent-or-conditional, the pair over all types (unordered in quick)
        singles = [(d, False, a) for d in D for a in anchors[:2]]
        # unordered pairs over the no-repeat types (thorough: full degree alphabet, three skeletons; the ordered / repeat
        # variants of two connectors on one side are covered at matrix level by C09/C10)
        pair_types = types_norep
        pairs = list(itertools.combinations_with_replacement(pair_types, 2))
        for s in singles:
            for p in pairs:
                if tier == 'quick' and len({p[0][2], p[1][2], s[2]}) == 1 and s[2] != 'a':
                    continue
                yield _conn_spec(sk, [s], list(p))
                yield _conn_spec(sk, list(p), [s])
        # grouping node over two members (one permanent, one anywhere), against one or two targets
        for m1 in [(d, False, 'a') for d in D]:
            for m2 in types_norep:
                for t in singles:
                    yield _conn_spec(sk, [m1, m2], [t], grp='src')
                    yield _conn_spec(sk, [t], [m1, m2], grp='tgt')
        # 2x2 with equal target types (quick) / free (thorough, reduced degree alphabet), one exclusion
        D22 = ['1', '0..1', '0..*'] if tier == 'quick' else ['1', '0..1', '0..*', '1..*', '0,2']
        t22 = [(d, False, a) for d in D22 for a in anchors[:2]]
        for s in itertools.combinations_with_replacement(t22, 2):
            tgt_pairs = [(t, t) for t in t22] if tier == 'quick' else list(itertools.combinations_with_replacement(t22, 2))
            for t in tgt_pairs:
                yield _conn_spec(sk, list(s), list(t))
                yield _conn_spec(sk, list(s), list(t), excl=[('S1', 'T2')])


def dv1(tier):
    """Design-variable nodes on any anchor of the skeletons (<= 2 nodes)."""
    sks = ['none', 'one', 'nested'] if tier == 'quick' else ['none', 'one', 'indep', 'nested', 'mutex']
    kinds = [dict(options=2), dict(options=3), dict(bounds=[0.0, 1.0])]
    if tier != 'quick':
        kinds.append(dict(bounds=[-1.0, 3.0]))
        kinds.append(dict(options=1))
    for sk in sks:
        anchors = ANCHORS[sk]
        for k1 in kinds:
            for a1 in anchors:
                spec = skel(sk)
                spec['dv'] = {'D1': dict(anchor=a1, **k1)}
                yield spec
                for k2 in kinds:
                    for a2 in anchors:
                        spec = skel(sk)
                        spec['dv'] = {'D1': dict(anchor=a1, **k1), 'D2': dict(anchor=a2, **k2)}
                        yield spec


def cc1(tier):
    """Choice constraints: type x 2-3 choices x 2-4 options x placements."""
    types = ['LINKED', 'PERMUTATION', 'UNORDERED', 'UNORDERED_NOREPL']
    n_choices = [2, 3]
    n_opts = [2, 3] if tier == 'quick' else [2, 3, 4]
    placements = ['permanent', 'permanent_indep', 'permanent_then_cond', 'permanent_shared', 'second_under_first', 'hier', 'hier_indep', 'mutex', 'perm_cond']
    for ctype in types:
        for nc in n_choices:
            for no in n_opts:
                for pl in placements:
                    for spec in _cc_specs(ctype, nc, no, pl, tier):
                        yield spec
    if tier == 'quick':
        # 4 options (thorough has them everywhere): corrections that have to move an option index by more than one
        for ctype in ('PERMUTATION', 'UNORDERED_NOREPL'):
            for spec in _cc_specs(ctype, 3, 4, 'permanent', tier):
                yield spec


def _cc_specs(ctype, nc, no, placement, tier):
    """Constrained choices X0..X{nc-1} with `no` options each (distinct option nodes)."""

    def base():
        return dict(starts=['a'], nodes=[], edges=[], choices=[], incompat=[], cc=[])

    def add_choice(spec, cid, origin, n):
        opts = [f'{cid.lower()}o{i}' for i in range(n)]
        spec['nodes'] += opts
        spec['choices'].append([cid, origin, opts])
        return opts

    cids = [f'X{i}' for i in range(nc)]
    if placement == 'permanent':
        spec = base()
        for cid in cids:
            add_choice(spec, cid, 'a', no)
        spec['cc'] = [[ctype, cids]]
        yield spec
    elif placement == 'permanent_indep':
        # constrained permanent choices plus an independent, unconstrained choice (a second scenario in the complete encoder)
        spec = base()
        for cid in cids:
            add_choice(spec, cid, 'a', no)
        add_choice(spec, 'Z', 'a', 2)
        spec['cc'] = [[ctype, cids]]
        yield spec
    elif placement == 'permanent_then_cond':
        # constrained permanent choices (followers get no variable) in front of an unconstrained CONDITIONAL choice:
        # the position of a variable differs from the position of its choice
        for under in sorted({0, nc-1}):
            spec = base()
            opts = [add_choice(spec, cid, 'a', no) for cid in cids]
            add_choice(spec, 'Z', opts[under][-1], 2)
            spec['cc'] = [[ctype, cids]]
            yield spec
    elif placement == 'hier_indep':
        spec = base()
        p = add_choice(spec, 'P', 'a', 2)
        for cid in cids:
            add_choice(spec, cid, p[0], no)
        add_choice(spec, 'Z', 'a', 2)
        spec['cc'] = [[ctype, cids]]
        yield spec
    elif placement == 'permanent_shared':
        # all constrained choices list the SAME option nodes (different originating nodes)
        spec = base()
        spec['nodes'] = [f'b{i}' for i in range(nc)] + [f'o{i}' for i in range(no)]
        spec['edges'] = [['a', f'b{i}'] for i in range(nc)]
        for i, cid in enumerate(cids):
            spec['choices'].append([cid, f'b{i}', [f'o{j}' for j in range(no)]])
        spec['cc'] = [[ctype, cids]]
        yield spec
    elif placement == 'second_under_first':
        # X1.. hang under option k of X0 (k = first and last)
        for k in sorted({0, no-1}):
            spec = base()
            o = add_choice(spec, cids[0], 'a', no)
            for cid in cids[1:]:
                add_choice(spec, cid, o[k], no)
            spec['cc'] = [[ctype, cids]]
            yield spec
    elif placement == 'hier':
        # all constrained choices under ONE option of an unconstrained parent
        spec = base()
        p = add_choice(spec, 'P', 'a', 2)
        for cid in cids:
            add_choice(spec, cid, p[0], no)
        spec['cc'] = [[ctype, cids]]
        yield spec
    elif placement == 'mutex':
        # constrained choices under DIFFERENT options of a parent: never active together
        spec = base()
        p = add_choice(spec, 'P', 'a', nc)
        for i, cid in enumerate(cids):
            add_choice(spec, cid, p[i], no)
        spec['cc'] = [[ctype, cids]]
        yield spec
    elif placement == 'perm_cond':
        # first permanent, the others under option 0 of an unconstrained parent
        spec = base()
        p = add_choice(spec, 'P', 'a', 2)
        add_choice(spec, cids[0], 'a', no)
        for cid in cids[1:]:
            add_choice(spec, cid, p[0], no)
        spec['cc'] = [[ctype, cids]]
        yield spec
        # and the reverse: last one permanent, earlier ones conditional
        spec = base()
        p = add_choice(spec, 'P', 'a', 2)
        for cid in cids[:-1]:
            add_choice(spec, cid, p[0], no)
        add_choice(spec, cids[-1], 'a', no)
        spec['cc'] = [[ctype, cids]]
        yield spec


def dvlink(tier):
    """Linked design-variable nodes (discrete/discrete, continuous/continuous with different bounds)."""
    for sk in (['none', 'one'] if tier == 'quick' else ['none', 'one', 'nested']):
        anchors = ANCHORS[sk]
        for a1 in anchors:
            for a2 in anchors:
                for k1, k2 in ((dict(options=3), dict(options=3)), (dict(options=2), dict(options=2)),
                               (dict(bounds=[0.0, 1.0]), dict(bounds=[-1.0, 3.0])),
                               (dict(bounds=[2.0, 4.0]), dict(bounds=[0.0, 1.0]))):
                    spec = skel(sk)
                    spec['dv'] = {'D1': dict(anchor=a1, **k1), 'D2': dict(anchor=a2, **k2)}
                    spec['cc'] = [['LINKED', ['D1', 'D2']]]
                    yield spec


def con2(tier):
    """CON-2: con1 plus two-choice skeletons with connectors tied to options of different choices, grouping
    nodes on both sides over mixed permanent/conditional members, exclusions into conditional and permanent targets."""
    yield from con1(tier)
    yield from grp_nc(tier)
    D = D_Q if tier == 'quick' else D_T
    for sk, (sa, ta) in (('indep', (('a', 'o1'), ('p1', 'a'))), ('nested', (('a', 'q1'), ('o1', 'a')))):
        for ds in itertools.product(D, repeat=2):
            for dt in itertools.product(D, repeat=2):
                srcs = [(ds[0], False, sa[0]), (ds[1], False, sa[1])]
                tgts = [(dt[0], False, ta[0]), (dt[1], False, ta[1])]
                yield _conn_spec(sk, srcs, tgts)
                yield _conn_spec(sk, srcs, tgts, excl=[('S1', 'T1')])
                if sk == 'indep':
                    yield _conn_spec(sk, srcs, tgts, excl=[('S2', 'T2')])
                # exclusion between two connectors that are conditional on DIFFERENT choices / nesting levels
                yield _conn_spec(sk, srcs, tgts, excl=[('S2', 'T1')])
    # TWO exclusion edges; the first-listed (and, reversed, the last-listed) one involves a conditional connector
    for ds in itertools.product(['1', '0..1', '0..*'], repeat=2):
        for dt in itertools.product(['0..1', '0..*'], repeat=2):
            for cond_src in (0, 1):
                srcs = [(ds[0], False, 'o1' if cond_src == 0 else 'a'), (ds[1], False, 'o1' if cond_src == 1 else 'a')]
                tgts = [(dt[0], False, 'a'), (dt[1], False, 'a')]
                c = f'S{cond_src+1}'
                o = f'S{2-cond_src}'
                yield _conn_spec('one', srcs, tgts, excl=[(c, 'T1'), (o, 'T2')])
                yield _conn_spec('one', srcs, tgts, excl=[(o, 'T2'), (c, 'T1')])
                yield _conn_spec('one', tgts, srcs, excl=[('S1', f'T{cond_src+1}'), ('S2', f'T{2-cond_src}')])
    # grouping on both sides
    for ds in itertools.product(D, repeat=2):
        for dt in itertools.product(D, repeat=2):
            spec = _conn_spec('one', [(ds[0], False, 'a'), (ds[1], False, 'o1')], [(dt[0], False, 'a'), (dt[1], True, 'o2')])
            spec['grp'] = {'G': ['S1', 'S2'], 'H': ['T1', 'T2']}
            spec['cch'] = [['K0', ['G'], ['H'], []]]
            yield spec
    if tier != 'quick':
        D3 = ['1', '0..1', '0..*', '1..2']
        for sk in ('one', 'indep'):
            anchors = ANCHORS[sk][:3]
            for ds in itertools.product(D3, repeat=3):
                for dt in itertools.product(D3, repeat=2):
                    srcs = [(ds[i], i == 2, anchors[i]) for i in range(3)]
                    tgts = [(dt[0], False, 'a'), (dt[1], True, anchors[1])]
                    yield _conn_spec(sk, srcs, tgts)
                    yield _conn_spec(sk, tgts, srcs, excl=[('S2', 'T3')])


def grp_nc(tier):
    """GRP-NC: grouping node whose members have NON-CONTIGUOUS degree lists (accepted amounts = set of sums, not a range)."""
    M1 = ['0,2', '1,3', '1']
    M2 = ['0,2', '1,3', '1', '0..1']
    contiguous = {'1', '0..1'}
    others = [[('0..*', True, 'a')], [('2', True, 'a')], [('3', True, 'a')], [('1..2', True, 'a')], [('0..*', False, 'a')],
              [('0..1', False, 'a'), ('0..2', True, 'a')]]
    for m1 in M1:
        for m2 in M2:
            if m1 in contiguous and m2 in contiguous:
                continue
            for a2 in ('a', 'o1'):
                for other in others:
                    yield _conn_spec('one', [(m1, False, 'a'), (m2, False, a2)], list(other), grp='src')
                    yield _conn_spec('one', list(other), [(m1, False, 'a'), (m2, False, a2)], grp='tgt')


def dv2(tier):
    """DV-2: skeletons x 1-2 design-variable nodes (discrete n in {1,2,3}; continuous (0,1), (-1,3)) under permanent /
    conditional anchors, with and without LINKED."""
    sks = ['none', 'one', 'nested'] if tier == 'quick' else ['none', 'one', 'indep', 'nested', 'mutex']
    kinds = [dict(options=1), dict(options=2), dict(options=3), dict(bounds=[0.0, 1.0]), dict(bounds=[-1.0, 3.0])]
    for sk in sks:
        anchors = ANCHORS[sk]
        for k1 in kinds:
            for a1 in anchors:
                spec = skel(sk)
                spec['dv'] = {'D1': dict(anchor=a1, **k1)}
                yield spec
                for k2 in kinds:
                    for a2 in anchors:
                        spec = skel(sk)
                        spec['dv'] = {'D1': dict(anchor=a1, **k1), 'D2': dict(anchor=a2, **k2)}
                        yield spec
                        if ('options' in k1) == ('options' in k2) and k1.get('options') == k2.get('options'):
                            spec = skel(sk)
                            spec['dv'] = {'D1': dict(anchor=a1, **k1), 'D2': dict(anchor=a2, **k2)}
                            spec['cc'] = [['LINKED', ['D1', 'D2']]]
                            yield spec


def met1(tier):
    """MET-1: one choice (2 options) + node z derived by all options; 1-2 metric nodes x dir x ref x type x anchor."""
    def base():
        spec = skel('one')
        spec['nodes'] = spec['nodes'] + ['z']
        spec['edges'] = [['o1', 'z'], ['o2', 'z']]
        return spec
    cfgs = [dict(anchor=a, dir=d, ref=r, type=t) for a in ('a', 'o1', 'z') for d in (None, -1, 1) for r in (None, 0.5)
            for t in (None, 'NONE', 'OBJECTIVE', 'CONSTRAINT')]
    for c in cfgs:
        spec = base()
        spec['met'] = {'M1': dict(c)}
        yield spec
    # metric derived from a connector that is the (conditional / permanent) target of an EXCLUSION edge from a permanent source
    for anchor in ('T1', 'T2'):
        for r in (None, 0.5):
            for t in (None, 'OBJECTIVE', 'CONSTRAINT'):
                spec = _conn_spec('one', [('0..1', False, 'a')], [('0..1', False, 'o1'), ('0..1', False, 'a')], excl=[('S1', anchor)])
                spec['met'] = {'M1': dict(anchor=anchor, dir=-1, ref=r, type=t)}
                yield spec
    second = cfgs if tier != 'quick' else [dict(anchor='a', dir=-1, ref=None, type=None), dict(anchor='o2', dir=1, ref=0.5, type=None),
                                          dict(anchor='a', dir=1, ref=0.5, type='OBJECTIVE'), dict(anchor='z', dir=-1, ref=0.5, type='CONSTRAINT'),
                                          dict(anchor='o1', dir=None, ref=None, type=None), dict(anchor='a', dir=1, ref=0.5, type='NONE')]
    for c1 in cfgs:
        for c2 in second:
            spec = base()
            # names chosen so that the sorted order differs from the creation order
            spec['met'] = {'Mb': dict(c1), 'Ma': dict(c2)}
            yield spec


def cyc(tier):
    """CYC: nested / overlapping derivation cycles entered at different depths.  Nodes X, Y, Z with EVERY subset of the six
    directed edges among them; an entry choice K: s -> [two of X, Y, Z] (ordered); a downstream choice C hanging off one of them."""
    trio = ['X', 'Y', 'Z']
    all_edges = [[u, v] for u in trio for v in trio if u != v]
    for n_e in range(0, 7):
        for edges in itertools.combinations(all_edges, n_e):
            for k_opts in itertools.permutations(trio, 2):
                for c_origin in trio:
                    if tier == 'quick' and n_e in (0, 6) and c_origin != 'X':
                        continue
                    yield dict(starts=['s'], nodes=trio+['c0', 'c1'], edges=[list(e) for e in edges], incompat=[],
                               choices=[['C', c_origin, ['c0', 'c1']], ['K', 's', list(k_opts)]])


def con3(tier):
    """CON-3: three (quick: also two) simultaneously active connection choices, each choosing among its targets."""
    def spec_for(n_choices, tgt_deg, src_deg, cond):
        sp = skel('one')
        sp['conn'] = {}
        sp['cch'] = []
        for k in range(n_choices):
            s_name = f'S{k}'
            sp['conn'][s_name] = dict(deg=src_deg, rep=False, anchor='a')
            tn = []
            for j in range(2):
                t = f'T{k}{j}'
                sp['conn'][t] = dict(deg=tgt_deg, rep=False, anchor=('o1' if (cond and k == 0 and j == 1) else 'a'))
                tn.append(t)
            sp['cch'].append([f'K{k}', [s_name], tn, []])
        return sp
    for n_choices in (2, 3):
        for src_deg, tgt_deg in (('1', '0..1'), ('0..1', '0..1'), ('1', '0..*')):
            for cond in (False, True):
                yield spec_for(n_choices, tgt_deg, src_deg, cond)
    # connection choices with exactly ONE valid connection set (no design variable), 2-3 of them active together, optionally
    # mixed with one that has a variable (every position)
    for n_choices in (2, 3):
        for with_var in [None] + list(range(n_choices)):
            sp = skel('one')
            sp['conn'] = {}
            sp['cch'] = []
            for k in range(n_choices):
                sp['conn'][f'S{k}'] = dict(deg='1', rep=False, anchor='a')
                if k == with_var:
                    tn = [f'T{k}0', f'T{k}1']
                    for t in tn:
                        sp['conn'][t] = dict(deg='0..1', rep=False, anchor='a')
                else:
                    tn = [f'T{k}0']
                    sp['conn'][tn[0]] = dict(deg='1', rep=False, anchor=('o1' if k == 1 else 'a'))
                sp['cch'].append([f'K{k}', [f'S{k}'], tn, []])
            yield sp
    # one of the connection choices (every position) has NO valid connection set when option o1 (resp. p1) is taken: a single
    # source with exactly one connection facing two targets that each demand one, the second target existing under the option
    for sk in ('one', 'indep'):
        for n_choices in (2, 3):
            for bad in range(n_choices):
                for bad_anchor in (['o1'] if sk == 'one' else ['o1', 'p1']):
                    sp = skel(sk)
                    sp['conn'] = {}
                    sp['cch'] = []
                    for k in range(n_choices):
                        sp['conn'][f'S{k}'] = dict(deg='1', rep=False, anchor='a')
                        tn = []
                        for j in range(2):
                            t = f'T{k}{j}'
                            if k == bad:
                                sp['conn'][t] = dict(deg='1', rep=False, anchor=(bad_anchor if j == 1 else 'a'))
                            else:
                                sp['conn'][t] = dict(deg='0..1', rep=False, anchor='a')
                            tn.append(t)
                        sp['cch'].append([f'K{k}', [f'S{k}'], tn, []])
                    yield sp


def diamond(tier):
    """DIAMOND: below option O1 two derivation branches of length la, lb reconverge in node C, which carries a choice; the other
    option O2 optionally derives C (or the middle of a branch) as well."""
    for la in (1, 2, 3):
        for lb in (1, 2, 3):
            for extra in (None, 'O2->C', 'O2->A1', 's->B1'):
                nodes = ['O1', 'O2', 'C', 'x', 'y'] + [f'A{i}' for i in range(1, la)] + [f'B{i}' for i in range(1, lb)]
                a = ['O1'] + [f'A{i}' for i in range(1, la)] + ['C']
                bch = ['O1'] + [f'B{i}' for i in range(1, lb)] + ['C']
                edges = [[a[i], a[i+1]] for i in range(len(a)-1)] + [[bch[i], bch[i+1]] for i in range(len(bch)-1)]
                edges = [list(e) for e in sorted({tuple(e) for e in edges})]
                if extra == 'O2->C':
                    edges.append(['O2', 'C'])
                elif extra == 'O2->A1':
                    if la < 2:
                        continue
                    edges.append(['O2', 'A1'])
                elif extra == 's->B1':
                    if lb < 2:
                        continue
                    edges.append(['s', 'B1'])
                for k_opts in (['O1', 'O2'], ['O2', 'O1']):
                    yield dict(starts=['s'], nodes=nodes, edges=edges, incompat=[],
                               choices=[['CH2', 'C', ['x', 'y']], ['K', 's', k_opts]])


def inc(tier):
    """INC: option k1 with a nested choice N; every subset of the edges that make k1 (or the other option) a necessary
    deriver of A / Z; one incompatibility pair."""
    import itertools
    cand = [['k1', 'A'], ['n1', 'Z'], ['n2', 'Z'], ['k2', 'Z'], ['k2', 'A'], ['s', 'A']]
    pairs = [['A', 'Z'], ['A', 'n1'], ['k1', 'Z'], ['k2', 'n2']]
    for r in range(len(cand)+1):
        for es in itertools.combinations(cand, r):
            for pair in pairs:
                yield dict(starts=['s'], nodes=['k1', 'k2', 'n1', 'n2', 'A', 'Z'], edges=[list(e) for e in es], incompat=[pair],
                           choices=[['K', 's', ['k1', 'k2']], ['N', 'k1', ['n1', 'n2']]])


def unr(tier):
    """UNR: a part that cannot be derived from the start node (cyclic, so without a floating root; or with a root) which is
    referenced from the derivable part by an incompatibility constraint and/or derives a node of the derivable part."""
    shapes = {
        'cycle2': dict(nodes=['X', 'Y'], edges=[['X', 'Y'], ['Y', 'X']], choices=[]),
        'cycle_choice': dict(nodes=['X', 'Y', 'Z', 'W'], edges=[['Y', 'X'], ['Z', 'W']], choices=[['C9', 'X', ['Y', 'Z']]]),
        'rooted': dict(nodes=['X', 'Y'], edges=[['X', 'Y']], choices=[]),
        'rooted_choice': dict(nodes=['X', 'Y', 'Z'], edges=[], choices=[['C9', 'X', ['Y', 'Z']]]),
    }
    for name, sh in shapes.items():
        for r in ('a', 'a1', 's'):
            for u in ('X', 'Y'):
                for extra in (None, ['X', 'a'], ['Y', 'b'], ['Y', 'a1']):
                    yield dict(starts=['s'], nodes=['a', 'b', 'a1', 'p', 'q'] + sh['nodes'],
                               edges=[['a', 'a1']] + [list(e) for e in sh['edges']] + ([extra] if extra else []),
                               incompat=[[r, u]],
                               choices=[['C0', 's', ['p', 'q']], ['C1', 's', ['a', 'b']]] + [list(c) for c in sh['choices']])


def inc2(tier):
    """INC-2: one node takes part in two (three) incompatibility constraints with different partners; partners are options
    or nodes derived (depth 1-2) below options of other choices."""
    for shared in ('a', 'A1'):
        for p1 in ('b', 'B5', 'B6'):
            for p2 in ('c', 'C5', 'C6', 'b2'):
                for order in (0, 1):
                    pairs = [[shared, p1], [shared, p2]]
                    if order:
                        pairs = [[p2, shared], [p1, shared]]
                    yield dict(starts=['s'], nodes=['a', 'a2', 'A1', 'b', 'b2', 'B5', 'B6', 'c', 'c2', 'C5', 'C6'],
                               edges=[['a', 'A1'], ['b', 'B5'], ['B5', 'B6'], ['c', 'C5'], ['C5', 'C6']], incompat=pairs,
                               choices=[['K1', 's', ['a', 'a2']], ['K2', 's', ['b', 'b2']], ['K3', 's', ['c', 'c2']]])


def inc3(tier):
    """INC-3: node y (carrying a choice) shared by two options x1, x2 of one choice; the options p, q of another choice are
    incompatible with every subset of {x1, x2} (removal influences that differ per option on a shared derived node)."""
    import itertools
    pairs = [['p', 'x1'], ['p', 'x2'], ['q', 'x1'], ['q', 'x2']]
    for r in range(1, len(pairs)+1):
        for inc in itertools.combinations(pairs, r):
            for shared in (True, False):
                edges = [['x1', 'y'], ['x2', 'y']] if shared else [['x1', 'y'], ['x2', 'y2']]
                nodes = ['p', 'q', 'x1', 'x2', 'y', 'u1', 'u2'] + ([] if shared else ['y2'])
                yield dict(starts=['s'], nodes=nodes, edges=edges, incompat=[list(e) for e in inc],
                           choices=[['C2', 's', ['p', 'q']], ['C3', 's', ['x1', 'x2']], ['C4', 'y', ['u1', 'u2']]])
