"""Harness-side seams (DESIGN.md 2): scripted time limiter; no source hooks are needed."""
import contextlib


class ScriptedLimiter:
    """Replacement for run_timeout: answer k of the script is 'run' (inline, default) or an
    exception class to raise instead of running the function.  Counts calls."""

    def __init__(self, script=None, default='run', by_name=None):
        self.script = dict(script or {})
        self.default = default
        self.by_name = dict(by_name or {})   # function name -> answer (for every call of that function)
        self.calls = 0
        self.log = []

    def __call__(self, timeout, func, *args, **kwargs):
        k = self.calls
        self.calls += 1
        ans = self.script.get(k, self.by_name.get(getattr(func, '__name__', '?'), self.default))
        self.log.append((k, getattr(func, '__name__', '?'), ans if isinstance(ans, str) else getattr(ans, '__name__', 'exc')))
        if ans == 'run':
            return func(*args, **kwargs)
        raise ans()


def install_inline_limiter(limiter=None):
    """Rebind the name run_timeout in the modules that use it (selector, graph_processor)."""
    from adsg_core.optimization.assign_enc import selector
    from adsg_core.optimization import graph_processor
    limiter = limiter or ScriptedLimiter()
    selector.run_timeout = limiter
    graph_processor.run_timeout = limiter
    return limiter


@contextlib.contextmanager
def limiter(script=None, default='run', by_name=None):
    from adsg_core.optimization.assign_enc import selector
    from adsg_core.optimization import graph_processor
    old = (selector.run_timeout, graph_processor.run_timeout)
    lim = ScriptedLimiter(script, default, by_name)
    selector.run_timeout = lim
    graph_processor.run_timeout = lim
    try:
        yield lim
    finally:
        selector.run_timeout, graph_processor.run_timeout = old
