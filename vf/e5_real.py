"""
Conformance of the E5 environment model with CPython: plan-driven co-simulation.

A *plan* fixes, for a call of run_timeout with a scripted worker function of n gated steps,
   k   : None = the result arrives first | j = the timeout fires while the worker waits at gate j
   adv : (a1, a2, a3) = how many further gates the worker passes right before the caller executes
         pool.terminate / thread.is_alive / PyThreadState_SetAsyncExc   (a1+a2+a3 <= n-1-k: the worker is still inside the
         function when the interrupt is sent; the remaining orders depend on ungateable internals of the real pool)
Every plan is executed twice: (1) on the MODEL, by a scheduler policy that makes exactly these choices -- the resulting
schedule is one of the schedules the explorer enumerates; (2) on the REAL ThreadPool / threading / ctypes, through gating
proxies at the same API boundaries (the real function body of run_timeout is re-instantiated over globals whose
`multiprocessing` / `ctypes` are thin proxies that wait for their turn and then call the real thing; the scripted function
handshakes at every step: interruptible steps spin in Python, native steps wait on an Event).  The observations
(outcome, where an interrupt was seen and of which type, what was swallowed, whether the function completed, the return value
of SetAsyncExc, whether a worker was still inside the function at return) must be equal.  A mismatch makes the check BROKEN
(the model is wrong), it is not a violation of the property.
"""
import ctypes
import itertools
import multiprocessing
import multiprocessing.pool
import threading
import time
import types
import gc

from vf import e5

CALLER_EVENTS = ['pool.terminate', 'thread.is_alive', 'SetAsyncExc']


# ------------------------------------------------------------------------------------------------ model side

def model_policy(plans):
    """Scheduler policy realising the plans (one per top-level call)."""
    st = dict(call=0, fired=False, quota=None)

    def find(alts, pred):
        for i, a in enumerate(alts):
            if pred(a):
                return i
        return None

    def policy(sched, alts, me):
        caller = sched.vts[0]
        # which top-level call are we in?  count completed 'after-call' labels through the caller's position
        ci = sum(1 for t in sched.trace if t[2] == 'caller' and False)  # placeholder, call index tracked below
        ci = st['call']
        if caller.at is not None and caller.at.startswith('after-call'):
            n_done = int(caller.at[len('after-call'):]) + 1
            if n_done != st['call']:
                st['call'] = n_done
                st['fired'] = False
                st['quota'] = None
            ci = st['call']
        if ci >= len(plans):
            return 0
        plan = plans[ci]
        tag = f'f{ci}'
        workers = [v for v in sched.vts[1:] if v.state != 'done']
        worker = workers[-1] if workers else None
        k = plan['k']
        if k is None:
            return 0
        gate = lambda j: f'{tag}.step{j}'
        if not st['fired']:
            if caller.state == 'blocked' and caller.timed and worker is not None and worker.at == gate(k) \
                    and worker.state == 'ready':
                i = find(alts, lambda a: a[0] == 'timeout' and a[1] is caller)
                if i is not None:
                    st['fired'] = True
                    st['quota'] = list(plan['adv'])
                    return i
            return 0
        # post phase
        if caller.at in CALLER_EVENTS and caller.state == 'ready':
            stage = CALLER_EVENTS.index(caller.at)
            if st['quota'][stage] > 0 and worker is not None and worker.state == 'ready':
                i = find(alts, lambda a: a[0] == 'run' and a[1] is worker)
                if i is not None:
                    if worker.at is not None and worker.at.startswith(tag + '.step'):
                        st['quota'][stage] -= 1
                    return i
            i = find(alts, lambda a: a[0] == 'run' and a[1] is caller)
            return i if i is not None else 0
        if caller.state == 'ready':
            i = find(alts, lambda a: a[0] == 'run' and a[1] is caller)
            return i if i is not None else 0
        return 0
    return policy


def model_observation(scenario, plans, facts):
    res = e5.run_execution(scenario, (), facts=facts, policy=model_policy(plans))
    obs = []
    for ci, rec in enumerate(res['calls']):
        tag = rec['tag']
        evs = res['events']
        o = dict(outcome=rec['outcome'], exc_type=rec.get('exc_type'), own=bool(rec.get('exc_is_own')),
                 step_exc=sorted((e[2], e[3]) for e in evs if e[0] == 'step-exc' and e[1] == tag),
                 swallowed=sorted((e[2], e[3]) for e in evs if e[0] == 'swallowed' and e[1] == tag),
                 completed=next((e[0] for e in evs if e[0] in ('func-return', 'func-raise') and e[1] == tag), None),
                 setasync=[1 if e[1] else 0 for e in rec['events'] if e[0] == 'async-set'],
                 in_func_at_return=bool(rec['still_in_func']))
        obs.append(o)
    return obs, res


# ------------------------------------------------------------------------------------------------ real side

class RealRun:
    """One call of the real run_timeout body under a plan."""

    def __init__(self, script, plan, tag):
        self.script, self.plan, self.tag = script, plan, tag
        self.n = len(script['steps'])
        self.released = 0
        self.arrived = -1
        self.native_events = [threading.Event() for _ in range(self.n)]
        self.log = []
        self.entered = False
        self.exited = False
        self.own_exc = None
        self.setasync = []
        self.stuck = None
        self.marker = object()
        self.lock = threading.Lock()

    # ---- worker function
    def func(self):
        self.entered = True
        try:
            for j, st in enumerate(self.script['steps']):
                try:
                    if st in ('sK', 'sE', 'sB'):
                        cls = {'sK': KeyboardInterrupt, 'sE': Exception, 'sB': BaseException}[st]
                        try:
                            self.gate(j, native=False)
                        except cls as e:
                            self.log.append(('swallowed', j, type(e).__name__))
                    else:
                        self.gate(j, native=(st == 'n'))
                except BaseException as e:
                    self.log.append(('step-exc', j, type(e).__name__))
                    raise
            if self.script['end'] == 'ret':
                self.log.append(('func-return',))
                return self.marker
            self.own_exc = e5.ENDINGS[self.script['end']]('own')
            self.log.append(('func-raise',))
            raise self.own_exc
        finally:
            self.exited = True

    def gate(self, j, native):
        self.arrived = j
        if native:
            self.native_events[j].wait(20)       # a blocking native call: no asynchronous exception inside it
            x = 0                                # first bytecodes after it returns: here the exception is raised
            x += 1
        else:
            t0 = time.time()
            while self.released <= j:            # interruptible busy wait in Python
                if time.time()-t0 > 20:
                    raise RuntimeError('gate stuck')

    # ---- controller
    def release_to(self, count):
        count = min(count, self.n)
        for j in range(self.released, count):
            self.native_events[j].set()
        self.released = max(self.released, count)

    def wait_arrived(self, j, timeout=5.0):
        t0 = time.time()
        while self.arrived < j and not self.exited:
            if time.time()-t0 > timeout:
                self.stuck = f'worker did not arrive at gate {j}'
                return False
            time.sleep(0.0005)
        return True

    def advance(self, a):
        for _ in range(a):
            nxt = self.released + 1
            self.release_to(nxt)
            if nxt < self.n:
                self.wait_arrived(nxt)
            else:
                t0 = time.time()
                while not self.exited and time.time()-t0 < 5:
                    time.sleep(0.0005)


def make_real_run_timeout(run):
    """run_timeout's real body over proxies that gate the caller-side API boundaries for `run`."""
    from adsg_core.optimization.assign_enc import time_limiter
    real = time_limiter.run_timeout
    plan = run.plan
    state = dict(timed_out=False)

    class ThreadProxy:
        def __init__(self, t):
            self._t = t
            self.ident = t.ident

        def is_alive(self):
            if state['timed_out']:
                run.advance(plan['adv'][1])
            return self._t.is_alive()

        def join(self, timeout=None):
            run.release_to(run.n)        # a worker held in a native call must be let go, or join would never return
            return self._t.join(timeout)

    class ResultProxy:
        def __init__(self, r, is_func):
            self._r, self._is_func = r, is_func

        def get(self, timeout=None):
            if not self._is_func:
                return self._r.get(timeout)
            k = plan['k']
            if k is None:
                run.release_to(run.n)
                # a function that dies with a BaseException never delivers a result: the real wait is shortened
                return self._r.get(timeout=0.4 if run.script['end'] == 'KeyboardInterrupt' else 30)
            run.release_to(k)
            if not run.wait_arrived(k):
                raise RuntimeError('conformance harness: ' + str(run.stuck))
            state['timed_out'] = True
            return self._r.get(timeout=0.02)

    class PoolProxy(multiprocessing.pool.ThreadPool):
        def __init__(self, processes=None):
            super().__init__(processes)
            self._n_async = 0

        def apply(self, func, args=(), kwds={}):
            t = super().apply(func, args, kwds)
            run.worker_thread = t
            return ThreadProxy(t)

        def apply_async(self, func, args=(), kwds={}, callback=None, error_callback=None):
            self._n_async += 1
            r = super().apply_async(func, args, kwds, callback, error_callback)
            return ResultProxy(r, is_func=(self._n_async == 2))   # 1st job: current_thread probe, 2nd: the function

        def __exit__(self, *exc):
            if state['timed_out']:
                run.advance(plan['adv'][0])
            return super().__exit__(*exc)

    def set_async(ident, exc):
        run.advance(plan['adv'][2])
        r = ctypes.pythonapi.PyThreadState_SetAsyncExc(ident, exc)
        run.setasync.append(1 if r else 0)
        return r

    mp = types.SimpleNamespace(TimeoutError=multiprocessing.TimeoutError, pool=types.SimpleNamespace(ThreadPool=PoolProxy))
    ct = types.SimpleNamespace(c_long=ctypes.c_long, py_object=ctypes.py_object,
                               pythonapi=types.SimpleNamespace(PyThreadState_SetAsyncExc=set_async))
    glb = dict(real.__globals__)
    glb.update(dict(multiprocessing=mp, ctypes=ct, threading=threading, gc=gc, gevent=None))
    return types.FunctionType(real.__code__, glb, real.__name__, real.__defaults__, real.__closure__)


def real_observation(scenario, plans):
    obs = []
    hook_calls = []
    old_hook = threading.excepthook
    threading.excepthook = lambda a: hook_calls.append(type(a.exc_value).__name__)
    try:
        for ci, (script, plan) in enumerate(zip(scenario['calls'], plans)):
            run = RealRun(script, plan, f'f{ci}')
            run.worker_thread = None
            rt = make_real_run_timeout(run)
            o = {}
            try:
                v = rt(1.0, run.func)
                o['outcome'] = 'return' if v is run.marker else 'return-other'
                o['exc_type'] = None
                o['own'] = False
            except BaseException as e:
                o['outcome'] = 'raise'
                o['exc_type'] = type(e).__name__
                o['own'] = e is run.own_exc
            o['in_func_at_return'] = run.entered and not run.exited
            run.release_to(run.n)
            if run.worker_thread is not None:
                run.worker_thread.join(5)
            time.sleep(0.002)
            o['step_exc'] = sorted((e[1], e[2]) for e in run.log if e[0] == 'step-exc')
            o['swallowed'] = sorted((e[1], e[2]) for e in run.log if e[0] == 'swallowed')
            o['completed'] = next((e[0] for e in run.log if e[0] in ('func-return', 'func-raise')), None)
            o['setasync'] = list(run.setasync)
            if run.stuck:
                o['stuck'] = run.stuck
            obs.append(o)
    finally:
        threading.excepthook = old_hook
    return obs, hook_calls


# ------------------------------------------------------------------------------------------------ the conformance case

def plans_for(script):
    n = len(script['steps'])
    out = [dict(k=None, adv=(0, 0, 0))]
    for k in range(n):
        rest = n-1-k
        for adv in itertools.product(range(rest+1), repeat=3):
            if sum(adv) <= rest:
                out.append(dict(k=k, adv=adv))
    return out


def run_case(case, tier, facts):
    res = dict(evals=0, states=0, trans=0, nontrivial=True, key='real_replay', features={'real_replay': 1}, violations=[])
    max_steps = 2 if tier == 'quick' else 3
    scripts = []
    for n in range(0, max_steps+1):
        for steps in itertools.product(['i', 'n', 'sK', 'sE', 'sB'], repeat=n):
            for end in ['ret', 'ValueError', 'OwnTimeout', 'KeyboardInterrupt']:
                scripts.append(dict(steps=list(steps), end=end))
    n_plans = 0
    mismatches = []
    shard, n_shards = case.get('shard', 0), case.get('n_shards', 1)
    res['key'] = f'real_replay{shard}'
    scripts = [sc for i, sc in enumerate(scripts) if i % n_shards == shard]
    for script in scripts:
        for plan in plans_for(script):
            scenario = dict(calls=[script])
            mobs, mres = model_observation(scenario, [plan], facts)
            robs, hooks = real_observation(scenario, [plan])
            n_plans += 1
            res['states'] += len(mres['trace'])
            if mobs != robs:
                mismatches.append(dict(script=script, plan=dict(plan, adv=list(plan['adv'])), model=mobs, real=robs))
                if len(mismatches) >= 5:
                    break
        if len(mismatches) >= 5:
            break
    # back-to-back: the second call after a timed-out first call
    for first in ((dict(steps=['i'], end='ret'), dict(steps=['sE', 'i'], end='ret'), dict(steps=['n'], end='ValueError'))
                  if shard == 0 else ()):
        for second in (dict(steps=[], end='ret'), dict(steps=['i'], end='ValueError')):
            for p1 in plans_for(first):
                scenario = dict(calls=[first, second])
                plans = [p1, dict(k=None, adv=(0, 0, 0))]
                mobs, mres = model_observation(scenario, plans, facts)
                robs, hooks = real_observation(scenario, plans)
                n_plans += 1
                res['states'] += len(mres['trace'])
                if mobs != robs:
                    mismatches.append(dict(script=[first, second], plan=[dict(p, adv=list(p['adv'])) for p in plans],
                                           model=mobs, real=robs))
    res['evals'] = n_plans
    res['trans'] = n_plans
    res['impl_traces'] = n_plans
    res['sample'] = dict(kind='real_replay', plans=n_plans, mismatches=len(mismatches))
    if mismatches:
        # a mismatch means the MODEL is wrong: reported as a harness error (check broken), not as a property violation
        res['harness_error'] = 'model/real mismatch: ' + repr(mismatches[:2])[:1500]
    return res
