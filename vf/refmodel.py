"""
Reference model (oracle) over specs -- pure Python, no import of adsg_core.  Written from
docs/theory.md; deliberately boring: set closure and itertools.product (DESIGN.md 3.3).
"""
import itertools
import math

# degree alphabet: name -> (finite allowed list | None, open-ended minimum | None)
DEG = {
    '1': ([1], None), '0..1': ([0, 1], None), '1..2': ([1, 2], None), '0,2': ([0, 2], None), '2': ([2], None),
    '0..*': (None, 0), '1..*': (None, 1), '0..2': ([0, 1, 2], None), '1,2': ([1, 2], None), '0': ([0], None),
    '2..*': (None, 2), '1,3': ([1, 3], None), '3': ([3], None),
}


# ---------------------------------------------------------------------------------------------
# selection level
# ---------------------------------------------------------------------------------------------

def derivation_edges(spec):
    """All unconditional derivation edges of a spec (incl. anchor and grouping-member edges)."""
    edges = [tuple(e) for e in spec.get('edges', [])]
    for kind in ('conn', 'dv', 'met'):
        for name, c in spec.get(kind, {}).items():
            if c.get('anchor') is not None:
                edges.append((c['anchor'], name))
    for g, members in spec.get('grp', {}).items():
        for m in members:
            edges.append((m, g))
    return edges


def closure(spec, assignment):
    """Least X >= starts closed under derivation edges and (origin(c) in X => a(c) in X).
    Returns (X, active choice ids, unassigned active choice ids)."""
    succ = {}
    for u, v in derivation_edges(spec):
        succ.setdefault(u, []).append(v)
    by_origin = {}
    for cid, origin, opts in spec.get('choices', []):
        by_origin.setdefault(origin, []).append(cid)
    X = set()
    active, missing = [], []
    todo = list(spec['starts'])
    while todo:
        u = todo.pop()
        if u in X:
            continue
        X.add(u)
        todo.extend(succ.get(u, []))
        for cid in by_origin.get(u, []):
            active.append(cid)
            if cid in assignment:
                todo.append(assignment[cid])
            else:
                missing.append(cid)
    return X, active, missing


def selection_architectures(spec):
    """All selection architectures: list of dict(nodes=frozenset, assign={cid: option} restricted
    to active choices, admissible=bool, why=str).  Each architecture appears exactly once."""
    choices = {cid: (origin, opts) for cid, origin, opts in spec.get('choices', [])}
    order = [cid for cid, _, _ in spec.get('choices', [])]
    out = []
    seen = set()

    def rec(assignment):
        X, active, missing = closure(spec, assignment)
        if missing:
            cid = min(missing, key=order.index)
            for opt in choices[cid][1]:
                a2 = dict(assignment)
                a2[cid] = opt
                rec(a2)
            return
        key = (frozenset(X), tuple(sorted(assignment.items())))
        if key in seen:
            return
        seen.add(key)
        ok, why = admissible_selection(spec, X, assignment)
        out.append(dict(nodes=frozenset(X), assign=dict(assignment), admissible=ok, why=why))

    rec({})
    return out


def admissible_selection(spec, X, assignment):
    for u, v in spec.get('incompat', []):
        if u in X and v in X:
            return False, f'incompat {u}-{v}'
    opts = {cid: o for cid, _, o in spec.get('choices', [])}
    for ctype, members in spec.get('cc', []):
        if not all(m in opts for m in members):
            continue  # constraint over design-variable nodes: no influence on admissibility
        order = sorted(members)   # choice order = decision-id order (the library's documented sort key)
        idx = [opts[m].index(assignment[m]) for m in order if m in assignment]
        if len(idx) < 2:
            continue
        if not index_predicate(ctype, idx):
            return False, f'{ctype} {idx}'
    return True, ''


def index_predicate(ctype, idx):
    if ctype == 'LINKED':
        return all(i == idx[0] for i in idx)
    if ctype == 'PERMUTATION':
        return len(set(idx)) == len(idx)
    if ctype == 'UNORDERED':
        return all(idx[i] <= idx[i+1] for i in range(len(idx)-1))
    if ctype == 'UNORDERED_NOREPL':
        return all(idx[i] < idx[i+1] for i in range(len(idx)-1))
    raise ValueError(ctype)


def expected_edges(spec, arch):
    """Derivation edges (u, v) of the instance graph of a selection architecture."""
    X = arch['nodes']
    edges = {(u, v) for u, v in derivation_edges(spec) if u in X and v in X}
    origin = {cid: o for cid, o, _ in spec.get('choices', [])}
    for cid, opt in arch['assign'].items():
        edges.add((origin[cid], opt))
    return edges


# ---------------------------------------------------------------------------------------------
# connection level
# ---------------------------------------------------------------------------------------------

def node_allowed(spec, name, X):
    """(finite list | None, minimum | None, rep) of a connector / grouping node in scenario X."""
    if name in spec.get('grp', {}):
        members = [m for m in spec['grp'][name] if m in X]
        lists, inf_min, rep = [], None, False
        for m in members:
            lst, mn = DEG[spec['conn'][m]['deg']]
            rep = rep or bool(spec['conn'][m].get('rep', False))
            if lst is not None:
                lists.append(lst)
            else:
                inf_min = (inf_min or 0) + mn
        if inf_min is not None:
            return None, inf_min + sum(min(l) for l in lists), rep
        return sorted({sum(c) for c in itertools.product(*lists)}), None, rep
    lst, mn = DEG[spec['conn'][name]['deg']]
    return lst, mn, bool(spec['conn'][name].get('rep', False))


def valid_matrices(src, tgt, excluded=()):
    """Brute force: src/tgt are lists of (finite list | None, minimum | None, rep) of the PRESENT
    nodes; excluded = set of (i, j).  Returns the set of valid matrices as tuples of row tuples."""
    n, m = len(src), len(tgt)
    finite_max = [max(l) for l, _, _ in list(src)+list(tgt) if l is not None and len(l) > 0]
    pmax = max([2]+finite_max)

    def lim(i, j):
        if (i, j) in excluded:
            return 0
        if not src[i][2] or not tgt[j][2]:
            cap = 1
        else:
            cap = pmax
        for l, _, _ in (src[i], tgt[j]):
            if l is not None:
                cap = min(cap, max(l) if l else 0)
        return cap

    def ok(total, node):
        l, mn, _ = node
        return (total in l) if l is not None else (total >= mn)

    if n == 0 or m == 0:
        good = all(ok(0, nd) for nd in list(src)+list(tgt))
        return {tuple(tuple(0 for _ in range(m)) for _ in range(n))} if good else set()

    cells = [(i, j) for i in range(n) for j in range(m)]
    out = set()
    for vals in itertools.product(*[range(lim(i, j)+1) for i, j in cells]):
        mat = [[0]*m for _ in range(n)]
        for (i, j), v in zip(cells, vals):
            mat[i][j] = v
        if all(ok(sum(mat[i]), src[i]) for i in range(n)) and \
                all(ok(sum(mat[i][j] for i in range(n)), tgt[j]) for j in range(m)):
            out.add(tuple(tuple(r) for r in mat))
    return out


def connection_sets(spec, cch, X):
    """Valid connection sets of a connection choice in scenario X: (exists, set of sorted edge
    multisets ((s, t), ...)).  exists = one of its sources is in X."""
    kid, srcs, tgts, excl = cch
    ps = [s for s in srcs if s in X]
    pt = [t for t in tgts if t in X]
    exists = len(ps) > 0
    src = [node_allowed(spec, s, X) for s in ps]
    tgt = [node_allowed(spec, t, X) for t in pt]
    ex = {(ps.index(s), pt.index(t)) for s, t in excl if s in ps and t in pt}
    if not exists:
        # no connection choice: only the empty set; valid iff all present targets accept 0
        good = all((0 in l) if l is not None else (mn <= 0) for l, mn, _ in tgt)
        return False, ({()} if good else set())
    mats = valid_matrices(src, tgt, ex)
    sets = set()
    for mat in mats:
        edges = []
        for i, s in enumerate(ps):
            for j, t in enumerate(pt):
                edges += [(s, t)]*mat[i][j]
        sets.add(tuple(sorted(edges)))
    return True, sets


# ---------------------------------------------------------------------------------------------
# full architectures
# ---------------------------------------------------------------------------------------------

def architectures(spec, with_dv=True):
    """A(spec): list of dicts(nodes, edges (derivation), conns (sorted multiset of (s,t)),
    dv {name: idx} for discrete dv nodes, assign).  Only admissible ones."""
    out = []
    for arch in selection_architectures(spec):
        if not arch['admissible']:
            continue
        X = arch['nodes']
        per_choice = []
        feasible = True
        for cch in spec.get('cch', []):
            exists, sets = connection_sets(spec, cch, X)
            if not sets:
                feasible = False
                break
            per_choice.append(sorted(sets))
        if not feasible:
            continue
        dvs = []
        if with_dv:
            for name, d in sorted(spec.get('dv', {}).items()):
                if name in X and 'options' in d and not _is_linked_follower(spec, name):
                    dvs.append([(name, i) for i in range(d['options'])])
        base_edges = frozenset(expected_edges(spec, arch))
        for conn_combo in itertools.product(*per_choice):
            conns = tuple(sorted(e for cs in conn_combo for e in cs))
            for dv_combo in itertools.product(*dvs):
                out.append(dict(nodes=X, edges=base_edges, conns=conns, dv=dict(dv_combo), assign=arch['assign']))
    return out


def _is_linked_follower(spec, dv_name):
    for ctype, members in spec.get('cc', []):
        if dv_name in members and sorted(members)[0] != dv_name:
            return True
    return False


def arch_key(arch, with_dv=False):
    k = (tuple(sorted(arch['nodes'])), tuple(sorted(arch['edges'])), tuple(arch['conns']))
    if with_dv:
        k = k + (tuple(sorted(arch['dv'].items())),)
    return k


def arch_keys(spec, with_dv=False):
    return {arch_key(a, with_dv) for a in architectures(spec, with_dv=with_dv)}
