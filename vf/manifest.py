"""Generates /verif/MANIFEST.json from the table below:  python -m vf.manifest"""
import json
import os

VERIF = os.path.dirname(os.path.dirname(os.path.abspath(__file__)))

MC = 'model_checking'
ALL_IDS = [f'C{i:02d}' for i in range(1, 21)]

CHECKS = {
    'C01': dict(
        text='Bounded-exhaustive input exploration (E1): every canonical design space graph of the small-scope grammar '
             '(selection layer; connection-choice and design-variable families) x both selection-choice encoders x every '
             'vector of the declared design space is decoded on the real GraphProcessor and compared with an independent '
             'reference model of the documented semantics. Complete within the stated scope; nothing is sampled.',
        note='Trusted: the reference model vf/refmodel.py (self-tested against the tables of docs/theory.md); scope '
             'bounds in vf/enumerate.py / vf/families.py; spaces > 4096 vectors skipped and counted.',
        technique='explicit enumeration of all inputs of a bounded grammar, differential oracle vs reference model',
        ref='4 (C01), 3.1-3.5'),
    'C02': dict(
        text='Explicit-state model checking (E2) of the instance-derivation transition system of every canonical selection '
             'spec: states are the real DSG objects, transitions the real get_for_apply_selection_choice calls for every '
             'offered choice and option (all orders), BFS with canonical state hashing; closure invariants on every state, '
             'leaf laws and both set inclusions against the reference enumeration, order independence; shape families (cycles, diamonds, '
             'non-derivable parts, incompatibility shapes) and staged build histories (an edge added in place to the initialised graph, '
             'initialised again).',
        note='Trusted: reference closure semantics (vf/refmodel.py); states merged only when graph and assignment agree.',
        technique='explicit-state BFS over the real transition function, invariants on all states',
        ref='4 (C02), 3.5 E2'),
    'C03': dict(
        text='E1: every spec of the scope x both encoders x every raw vector of the declared space: the corrected vector is in '
             'range, is re-decoded twice and must reproduce vector, activeness and architecture (fixed point); every active '
             'selection variable names the option that is wired to the originating node in the instance; design-variable nodes '
             'carry the reported value; two different corrected vectors never denote the same architecture.',
        note='Trusted: the instance observation (public graph API). Connection variables are covered through fixed point and '
             'injectivity here, their matrix-level decoding by C10/C11.',
        technique='explicit enumeration of all inputs in bounds, fixed-point and injectivity oracle on the real decoder',
        ref='4 (C03)'),
    'C04': dict(
        text='E1, complete encoder: the rows of get_all_discrete_x are compared with the reference architecture set of every spec '
             '(both inclusions), every row is decoded and must be a fixed point with the listed activeness, rows and their '
             'architectures pairwise distinct, counts / declared size / imputation ratio / statistics consistent; repeated with '
             'every single variable fixed to every value (subset law).',
        note='Trusted: reference model A(spec) incl. brute-force connection sets. Completeness is judged on (node set, connection '
             'edges, discrete dv values), uniqueness on (graph, options taken) - the two readings of "architecture" that cannot '
             'produce a false alarm.',
        technique='explicit enumeration of all inputs in bounds, set equality with the reference enumeration',
        ref='4 (C04)'),
    'C06': dict(
        text='E2 (complete derivation state graph, all orders) on every spec with incompatibility pairs + E1 at processor level: '
             'no state/instance reported feasible holds a confirmed incompatible pair; no admissible architecture loses an option '
             'in any state it extends (no over-pruning) and each is a feasible leaf; infeasible/refused iff the reference set is empty.',
        note='Trusted: reference closure semantics. Placement of pairs (start/option/derived/shared) follows from the grammar.',
        technique='explicit-state BFS over the real transition function + exhaustive decode tables',
        ref='4 (C06)'),
    'C07': dict(
        text='E1 (graph level): every spec x both encoders x every raw vector, with and without materialising the instance, and '
             'every enumeration row: active => owning choice / design-variable node exists in the decoded instance, inactive => '
             'canonical value, variables not flagged conditionally active are always active, all paths report the same activeness. '
             'Assignment-manager level: connector settings with conditional connectors x every registered connection encoder through the '
             'C10 manager exploration, its C07 laws reported here.',
        note='Trusted: owner existence read from the decoded instance graph.',
        technique='explicit enumeration of all inputs in bounds, cross-path agreement oracle',
        ref='4 (C07)'),
    'C10': dict(
        text='E1 over ALL encoder factories of the registry (9 eager, 11 lazy, 4 enumerating, 6 pattern) x imputers (all on 1x1/1x2/2x1, '
             'default on 2x2) x connector settings with existence patterns x EVERY vector of each declared space plus out-of-range and '
             'too-long vectors: valid matrix (brute-force reference), corrected vector in range, idempotent (twice), onto, equal '
             'corrected vectors = equal matrices, listed design vectors = corrected vectors, >= 2 used values per variable, only '
             'InvalidPatternEncoder at construction; plus the activeness contract of C07 at manager level.',
        note='Trusted: brute-force reference. Constraint-violation imputers are held to "valid or flagged, never flagged on a listed vector".',
        technique='explicit enumeration of encoder x imputer x setting x full vector space, brute-force oracle',
        ref='4 (C10)'),
    'C11': dict(
        text='E2 + E1 on the CON-2 family: every existence scenario is reached through the real selection API (all leaves of the '
             'derivation state graph); per scenario and connection choice the offered sets equal the brute-force sets for the connectors '
             'present (each once), validate_conn_edges agrees on every edge multiset of the cube, applying each set yields exactly those '
             'edges; processor level (both encoders): infeasible scenarios never decoded to, feasible ones never lost, enumeration = reference.',
        note='Trusted: brute-force per-scenario reference incl. grouping-node sums and the re-implemented parallel-connection limit.',
        technique='explicit-state exploration of scenarios + exhaustive enumeration of connection sets and decode tables',
        ref='4 (C11)'),
    'C12': dict(
        level='fault_enumeration',
        text='E4: the real EncoderSelector runs under a scripted time limiter; for every setting of the scope the default script, every '
             'single deviation (each limiter call answered with TimeoutError / MemoryError, each candidate rejected with '
             'InvalidPatternEncoder / DetectedHighImpRatio), all pairs (thorough) and the all-timeout extremes are executed to '
             'completion, each from a cold cache; complement scripts (only two candidates run) for three settings; 6 cache histories (cold, '
             'warm, matrix-only, selection-only, written by another process with another hash seed, matrix cache first written by '
             'enumerating a single existence pattern) must give identical variables, decode tables and matrices; the returned manager must '
             'satisfy the C10 laws; cache keys are compared over all pairs of ~2.9e5 enumerated settings.',
        note='Assumes the limiter seam (name run_timeout in the selector module) captures every time dependence; numeric-stack versions '
             'cannot be varied offline.',
        technique='exhaustive enumeration of environment answers (limiter scripts, cache histories) up to a deviation bound',
        ref='4 (C12), 3.5 E4'),

    'C13': dict(
        text='CC-1 family (4 constraint types x 2-3 choices x 2-4 options x 6 placements incl. shared option nodes, hierarchical and '
             'mutually exclusive): complete derivation state graph, both decode tables and the enumeration are compared with the '
             'documented index predicates; the pure index functions are checked on all small inputs; linked design-variable nodes at '
             'graph and processor level.',
        note='Trusted: the documented predicates (theory.md) re-implemented in vf/refmodel.index_predicate.',
        technique='explicit enumeration of constraint configurations and index rows, explicit-state BFS per spec',
        ref='4 (C13)'),

    'C14': dict(
        text='E1 with the fast encoder on every spec of the scope (incl. zero-choice graphs, forced choices, incompatibilities, linked '
             'choices, connection choices): sound, onto (equal to the reference set and to the complete encoder), valid vectors '
             'unchanged; E3 slice: the decode table after every ordered pair of preceding decodes equals the fresh table; E4: '
             'fallback via injected TimeoutError / MemoryError yields a FAST processor with the same table.',
        note='Trusted: reference model; scripted limiter replaces run_timeout in graph_processor/selector (harness seam).',
        technique='explicit enumeration of inputs, preceding-decode histories and fallback fault scripts',
        ref='4 (C14)'),

    'C16': dict(
        text='E1 on the DV-2 family (1-2 design-variable nodes, discrete 1..3 options / two continuous ranges, permanent and conditional '
             'anchors, with and without LINKED) x both encoders x every selection vector x an 8-value alphabet per design-variable '
             'variable (far below .. far above, non-integer), with and without materialising; plus the direct graph setter.',
        note='Trusted: clamp semantics as documented (int() then option range / bounds).',
        technique='explicit enumeration of specs x value alphabet on the real decoder and setter',
        ref='4 (C16)'),
    'C17': dict(
        text='E1 on the MET-1 family: every direction x reference x declared type x anchor combination for one metric node and pairs, '
             'every architecture, four evaluator scripts (complete / one missing / NaN / empty) through a DSGEvaluator subclass; '
             'classification decision table, value order, NaN and reference rules.',
        note='Trusted: the decision table transcribed from the documentation.',
        technique='explicit enumeration of metric configurations x architectures x evaluator scripts',
        ref='4 (C17)'),

    'C05': dict(
        text='E3: for every driver spec (one per stateful shortcut in the code: feasibility mask, excluded cache, graph caches, '
             'copy-on-assign, linked/forced choices) and both encoders, EVERY sequence up to depth 3 (thorough 4) over {decode(x, '
             'create), enumerate, statistics, fix, free, mutate returned instance, pickle round trip} is replayed on a fresh '
             'processor and the complete observable state afterwards is compared with a fresh processor with the same fixed '
             'values; returned instances must be independent objects; decode tables from sub-processes with hash seeds {0,1,2} x 3 '
             'node-id assignments must be identical.',
        note='Trusted: the differential oracle (fresh processor); process-wide caches are shared within a worker, violations are '
             're-run in a fresh process.',
        technique='exhaustive enumeration of operation histories up to a depth bound, differential oracle vs fresh object',
        ref='4 (C05), 3.5 E3'),
    'C08': dict(
        text='E3 on a family of live graph objects: every sequence (depth 3, thorough 4) of derive/decode operations applied to any '
             'live object (copy, every offered selection option, every valid connection set, constrain on a copy, confirmed graph, '
             'decode through a processor); all live objects are completely re-observed after every operation.',
        note='Raw attributes of shared node objects are excluded from the observation (documented as shared); observed through '
             'valid connection sets and feasibility instead.',
        technique='exhaustive enumeration of operation histories over a family of live objects, re-observation after every step',
        ref='4 (C08)'),
    'C15': dict(
        text='E3 over {fix(v,val), free(v)}: all sequences up to depth 3/4 over all selection and design-variable variables and all '
             'values on 200+ subjects and both encoders; after every sequence the variables, full decode table, restricted '
             'enumeration, counts and statistics are compared with the unfixed problem filtered by the fixed map (subset law, both '
             'inclusions); every rejected operation (connection variable, out-of-range) must raise and change nothing.',
        note='Trusted: the unfixed problem of a fresh processor as reference.',
        technique='exhaustive enumeration of fix/free histories, subset-law oracle',
        ref='4 (C15)'),
    'C18': dict(
        text='Every single structural edit (node/edge of every type/start node/constraint) on copy or original breaks equality and '
             'undoing restores it; pickle round trips of graph and processor and builds in sub-processes with 3 hash seeds x 3 id '
             'assignments are recognised as the same design space with identical variables and decode tables; over all pairs of '
             '~19k graphs same fingerprint <=> same structure; GML and DOT exports parsed back contain every node and adjacency.',
        note='Values are not part of equality; fingerprints are compared inside one process (they are process-local by construction).',
        technique='exhaustive enumeration of single edits and configurations (hash seed x id assignment), all-pairs grouping',
        ref='4 (C18)'),

    'C19': dict(
        text='E5: the real function body of run_timeout (re-instantiated over modelled multiprocessing/threading/ctypes/gc) is executed '
             'under every schedule with <= 3 (thorough 4) deviations from the default choice for all 780 worker scripts (<= 3 steps from '
             '{interruptible, native, swallow-KeyboardInterrupt/Exception/BaseException} x {return, return an exception instance, ValueError, '
             'TimeoutError subclass, KeyboardInterrupt}), without bound for the shortest scripts, for back-to-back and nested calls; outcome law, no interrupt to '
             'the caller, nothing left running, no deadlock on every execution. The model facts are calibrated on the real interpreter '
             'at every run and 664 (thorough: all) plans are co-simulated on the real ThreadPool/ctypes through gating proxies; a '
             'mismatch breaks the check.',
        note='Trusted: the environment model of vf/e5.py (facts F1-F5) within its calibration/co-simulation; schedules beyond the '
             'deviation bound, thread-ident reuse and other application threads are not covered.',
        technique='stateless schedule exploration (deviation-bounded DFS) of the implementation over a modelled scheduler + conformance replay',
        ref='4 (C19), 3.5 E5'),
    'C20': dict(
        text='For 300 (thorough: all) source specs and ALL their architectures (real instances at the leaves of the derivation state '
             'graph): every supplementary graph of the sup grammar x every option mapping (all total functions incl. the inactive '
             'case) and existence mapping x both registration orders is resolved and compared with the documented rule; the error '
             'alphabet (unmapped option, missing None, foreign target, duplicate mapping, unmapped sup choice, non-final source, '
             'existence mapping without None) must raise.',
        note='Trusted: expected option computed from the assignment recorded on the path to the leaf.',
        technique='explicit enumeration of source architectures x sup graphs x mappings x registration orders',
        ref='4 (C20)'),

    'C09': dict(
        text='Bounded-exhaustive exploration of connector settings (all type combinations up to 2x2, every existence '
             'pattern, every single exclusion; larger shapes in thorough) on the real matrix generator; oracle is brute-force '
             'enumeration of the per-pair limit cube; enumeration, iteration, validity test (on every matrix of the cube), '
             'counting and warm-cache results are all compared.',
        note='Trusted: brute-force reference (vf/refmodel.valid_matrices) incl. the re-implemented parallel-connection limit.',
        technique='explicit enumeration of all settings/patterns/matrices in bounds, brute-force oracle',
        ref='4 (C09)'),
}

READY = set(ALL_IDS)

NOT_YET = {
}

ALL = [f'C{i:02d}' for i in range(1, 21)]


def main():
    checks = []
    for pid in ALL:
        if pid not in CHECKS or pid not in READY:
            continue
        c = CHECKS[pid]
        checks.append(dict(
            property_id=pid,
            quick_cmd=f'./check {pid} quick',
            thorough_cmd=f'./check {pid} thorough',
            evidence_file=f'/verif/evidence/{pid}.json',
            replay_cmd_template='./check --replay {path}',
            engine='vf',
            level_claimed=dict(category=c.get('level', MC), text=c['text'], design_ref=f'DESIGN.md section {c["ref"]}'),
            level_note=c['note'],
            technique=c['technique'],
        ))
    manifest = dict(
        version=1,
        setup_cmd='cd /verif && PYTHONPATH=/verif /venv/bin/python -m vf.selftest',
        hooks=dict(
            guard='ADSG_CORE_VERIF',
            enable='no source hooks exist: all seams are harness-side (vf/env.py, vf/build.py); checks import adsg_core '
                   'straight from /repo (editable install) with ADSG_CORE_VERIF=1 set for documentation only',
            baseline_off_cmd='cd /repo && /venv/bin/python -m pytest -ra -q -p no:cacheprovider --timeout=900 '
                             '--continue-on-collection-errors',
            source_commits=[],
            add_only=True,
        ),
        engines=[dict(name='vf', path='/verif/vf', serves_properties=sorted(READY),
                      kind_free_text='purpose-built bounded-exhaustive explorers for Python (E1 inputs, E2 instance state '
                                     'graph, E3 histories, E4 environment answers, E5 thread schedules), see DESIGN.md 3.5')],
        checks=checks,
        not_applicable=[dict(property_id=p, reason=NOT_YET.get(p, 'check not built yet (work in progress; see DESIGN.md 6b build order)'))
                        for p in ALL if p not in CHECKS or p not in READY],
        notes='Every check enumerates its scope completely (quick = smaller scope, thorough = larger). VERIF_SEED is '
              'recorded but does not select cases. Known findings: /verif/known_findings.json.',
    )
    with open(os.path.join(VERIF, 'MANIFEST.json'), 'w') as fp:
        json.dump(manifest, fp, indent=1)
    print('wrote MANIFEST.json with', len(checks), 'checks')


if __name__ == '__main__':
    main()
