"""Generates /verif/MANIFEST.json from the table below:  python -m vf.manifest"""
import json
import os

VERIF = os.path.dirname(os.path.dirname(os.path.abspath(__file__)))

MC = 'model_checking'

CHECKS = {
    'C01': dict(
        text='Bounded-exhaustive input exploration (E1): every canonical design space graph of the small-scope grammar '
             '(selection layer; connection-choice and design-variable families) x both selection-choice encoders x every '
             'vector of the declared design space is decoded on the real GraphProcessor and compared with an independent '
             'reference model of the documented semantics. Complete within the stated scope; nothing is sampled.',
        note='Trusted: the reference model vf/refmodel.py (self-tested against the tables of docs/theory.md); scope '
             'bounds in vf/enumerate.py / vf/families.py; spaces > 4096 vectors skipped and counted.',
        technique='explicit enumeration of all inputs of a bounded grammar, differential oracle vs reference model',
        ref='4 (C01), 3.1-3.5'),
    'C02': dict(
        text='Explicit-state model checking (E2) of the instance-derivation transition system of every canonical selection '
             'spec: states are the real DSG objects, transitions the real get_for_apply_selection_choice calls for every '
             'offered choice and option (all orders), BFS with canonical state hashing; closure invariants on every state, '
             'leaf laws and both set inclusions against the reference enumeration, order independence.',
        note='Trusted: reference closure semantics (vf/refmodel.py); states merged only when graph and assignment agree.',
        technique='explicit-state BFS over the real transition function, invariants on all states',
        ref='4 (C02), 3.5 E2'),
    'C09': dict(
        text='Bounded-exhaustive exploration of connector settings (all type combinations up to 2x2, every existence '
             'pattern, every single exclusion; larger shapes in thorough) on the real matrix generator; oracle is brute-force '
             'enumeration of the per-pair limit cube; enumeration, iteration, validity test (on every matrix of the cube), '
             'counting and warm-cache results are all compared.',
        note='Trusted: brute-force reference (vf/refmodel.valid_matrices) incl. the re-implemented parallel-connection limit.',
        technique='explicit enumeration of all settings/patterns/matrices in bounds, brute-force oracle',
        ref='4 (C09)'),
}

READY = {'C02', 'C09'}

NOT_YET = {
}

ALL = [f'C{i:02d}' for i in range(1, 21)]


def main():
    checks = []
    for pid in ALL:
        if pid not in CHECKS or pid not in READY:
            continue
        c = CHECKS[pid]
        checks.append(dict(
            property_id=pid,
            quick_cmd=f'./check {pid} quick',
            thorough_cmd=f'./check {pid} thorough',
            evidence_file=f'/verif/evidence/{pid}.json',
            replay_cmd_template='./check --replay {path}',
            engine='vf',
            level_claimed=dict(category=c.get('level', MC), text=c['text'], design_ref=f'DESIGN.md section {c["ref"]}'),
            level_note=c['note'],
            technique=c['technique'],
        ))
    manifest = dict(
        version=1,
        setup_cmd='cd /verif && PYTHONPATH=/verif /venv/bin/python -m vf.selftest',
        hooks=dict(
            guard='ADSG_CORE_VERIF',
            enable='no source hooks exist: all seams are harness-side (vf/env.py, vf/build.py); checks import adsg_core '
                   'straight from /repo (editable install) with ADSG_CORE_VERIF=1 set for documentation only',
            baseline_off_cmd='cd /repo && /venv/bin/python -m pytest -ra -q -p no:cacheprovider --timeout=900 '
                             '--continue-on-collection-errors',
            source_commits=[],
            add_only=True,
        ),
        engines=[dict(name='vf', path='/verif/vf', serves_properties=sorted(READY),
                      kind_free_text='purpose-built bounded-exhaustive explorers for Python (E1 inputs, E2 instance state '
                                     'graph, E3 histories, E4 environment answers, E5 thread schedules), see DESIGN.md 3.5')],
        checks=checks,
        not_applicable=[dict(property_id=p, reason=NOT_YET.get(p, 'check not built yet (work in progress; see DESIGN.md 6b build order)'))
                        for p in ALL if p not in CHECKS or p not in READY],
        notes='Every check enumerates its scope completely (quick = smaller scope, thorough = larger). VERIF_SEED is '
              'recorded but does not select cases. Known findings: /verif/known_findings.json.',
    )
    with open(os.path.join(VERIF, 'MANIFEST.json'), 'w') as fp:
        json.dump(manifest, fp, indent=1)
    print('wrote MANIFEST.json with', len(checks), 'checks')


if __name__ == '__main__':
    main()
