"""
Maintenance tool for /verif/known_findings.json -- run BY HAND, never by a check.

    VERIF_DUMP_ALL=1 ./check C04 quick          (writes replays/C04/_all_quick.jsonl)
    python -m vf.findings collect [--write]     groups the dumped violations of all properties by root cause
                                                (the classifiers below), prints what is unclassified, and with
                                                --write regenerates the 'known' entries of known_findings.json

A 'known' entry lists exact signatures (property, failure kind, input case); the classifiers are only
used here, to group signatures under the root cause they were diagnosed as -- a check never evaluates
a structural predicate, it only compares signatures.  'fixed' entries are kept verbatim.
"""
import os
import sys
import glob
import json
import collections

VERIF = os.path.dirname(os.path.dirname(os.path.abspath(__file__)))

META = {
    'F37': 'SupSelChoiceOptionMapping cannot resolve a source architecture in which the originating node of the mapped source choice '
           'also derives another mapped option node (a direct derivation edge to an option, or a second choice on the same node '
           'sharing an option): SupResolveError "could not determine which option node was selected" although the architecture '
           'took exactly one option (e.g. start s0; edge s0->n2; C0: s0->[n1,n2]; architecture C0=n1)',
    'F36': 'nested run_timeout: when the outer time limit interrupts the outer worker while it is inside an inner run_timeout '
           '(between leaving the inner pool and joining the inner worker), the inner worker is neither interrupted nor joined: after '
           'the outer call has returned it is still executing the inner function (schedule recorded in the replay file)',
    'F34': 'linked design-variable nodes that do not always exist together: the variable belongs to the first node of the link; '
           'when that node is absent the other (existing) node never receives a value '
           '(e.g. C0: a->[o1,o2]; D1 under o2, D2 under a, LINKED(D1,D2): for C0=o1 the instance contains D2 without a value)',
    'F27': 'lazy (on-demand) connection encoders and the assigning/partitioning pattern encoders declare design variables of which '
           'only one value is ever used (they do not enumerate the matrices), e.g. LazyDirectMatrixEncoder on src=[1], tgt=[1]: '
           'one variable with 2 options, only value 1 decodes to the single valid matrix',
    'F8': 'complete encoder, option node shared between selection choices: architectures missing from enumeration/decoding, '
          'or a conditionally active choice that shares an option is reported active/wired inconsistently '
          '(e.g. start s0; C0: s0->[n1,n2]; C1: n1->[n3,n2]; n1 incompatible n2: architecture {s0,n2} is never decoded)',
    'F10': 'complete encoder, choice constraint whose members are not all active together: valid combinations missing, '
           'enumeration rows that are not fixed points, or NoOptionError while decoding '
           '(e.g. P: a->[po0,po1]; X0 under po0, X1 under a; UNORDERED_NOREPL(X0,X1): architecture (po0,x0o0,x1o1) unreachable)',
    'F14': 'complete encoder, IndexError while analysing a graph in which an option is infeasible from the start because '
           'it activates a choice whose only option conflicts with it '
           '(e.g. C0: s0->[n1,n2]; C1: n1->[n2]; n1 incompatible n2): GraphProcessor construction fails although {s0,n2} is feasible',
    'F9': 'fast encoder collapses LINKED choices into one variable although they are not all permanent: the choice that is '
          'resolved first takes option 0 (or the options of choices that are never active together are unreachable) '
          '(e.g. P: a->[po0,po1]; X0 under po0, X1 under a; LINKED(X0,X1): architecture (po0,x0o1,x1o1) is never decoded)',
}


# properties whose known findings are matched on the EXACT violation (property, kind, input, observed detail) instead of
# (property, kind, input): a change that makes a listed input fail differently (e.g. more architectures missing) is reported.
# Only for checks whose details were verified to be identical across runs and seeds.
EXACT_PROPS = {'C13', 'C14'}


def shared_option(spec):
    opts = [o for _, _, os_ in spec.get('choices', []) for o in os_]
    return len(set(opts)) < len(opts)


def cc_conditional(spec):
    """a selection-choice constraint with a member whose origin is not a start node"""
    origin = {c: o for c, o, _ in spec.get('choices', [])}
    for ctype, members in spec.get('cc', []):
        if all(m in origin for m in members) and any(origin[m] not in spec['starts'] for m in members):
            return True
    return False


def exc_of(v):
    d = v.get('detail')
    if isinstance(d, dict) and d.get('exc'):
        return ' '.join(str(x) for x in d['exc'])
    return ''


def classify(prop, v):
    case = v.get('case') or {}
    if prop in ('C10', 'C12') and v.get('kind') == 'variable-with-less-than-two-used-values':
        return 'F27'
    spec = case.get('spec') if isinstance(case, dict) else None
    if prop == 'C16' and v.get('kind') == 'existing-linked-node-without-value':
        return 'F34'
    if prop == 'C20' and v.get('kind') == 'resolve-raised' and 'could not determine which option node' in exc_of(v):
        return 'F37'
    if prop == 'C19' and v.get('kind') == 'worker-still-running-the-function-after-return' and case.get('shape') == 'nested':
        return 'F36'
    enc = case.get('enc') if isinstance(case, dict) else None
    if spec is None:
        return None
    if prop in ('C02', 'C08', 'C18', 'C19', 'C20'):
        return None   # graph-level / other checks: the processor-level root causes below do not apply
    if enc in ('COMPLETE', None) and 'index 0 is out of bounds for axis 0 with size 0' in exc_of(v):
        return 'F14'
    if enc in ('COMPLETE', None) and not spec.get('cc') and shared_option(spec):
        return 'F8'
    if enc in ('COMPLETE', None) and cc_conditional(spec):
        return 'F10'
    if enc == 'FAST' and cc_conditional(spec) and any(c[0] == 'LINKED' for c in spec.get('cc', [])):
        return 'F9'
    return None


def main(argv):
    write = '--write' in argv
    groups = collections.defaultdict(lambda: collections.defaultdict(set))
    unclassified = collections.defaultdict(list)
    for path in sorted(glob.glob(os.path.join(VERIF, 'replays', '*', '_all_*.jsonl'))):
        prop = os.path.basename(os.path.dirname(path))
        for line in open(path):
            v = json.loads(line)
            fid = classify(prop, v)
            if fid is None:
                if not v.get('known'):
                    unclassified[prop].append(v)
                continue
            groups[fid][prop].add(v['sig'] if prop in EXACT_PROPS else v['case_sig'])
    for fid in sorted(groups):
        for prop in sorted(groups[fid]):
            print(f'{fid} {prop}: {len(groups[fid][prop])} signatures')
    for prop, vs in unclassified.items():
        kinds = collections.Counter((v['kind'], (v['case'] or {}).get('enc') if isinstance(v['case'], dict) else '') for v in vs)
        print(f'UNCLASSIFIED {prop}: {len(vs)}', dict(kinds))
    if not write:
        return 0
    path = os.path.join(VERIF, 'known_findings.json')
    data = json.load(open(path))
    keep = [e for e in data['findings'] if e.get('status') != 'known' or e.get('manual')]
    old = {(e['id']): e for e in data['findings'] if e.get('status') == 'known' and not e.get('manual')}
    new = []
    for fid in sorted(groups):
        for prop in sorted(groups[fid]):
            eid = f'{fid}/{prop}'
            sigs = set(groups[fid][prop])
            if '--merge' in argv and eid in old:
                sigs |= set(old[eid].get('signatures', []))
            new.append(dict(id=eid, property=prop, status='known', match='exact' if prop in EXACT_PROPS else 'kind', what=META[fid],
                            signatures=sorted(sigs)))
    if '--merge' in argv:
        have = {e['id'] for e in new}
        new += [e for k, e in old.items() if k not in have]
    data['findings'] = keep + sorted(new, key=lambda e: e['id'])
    with open(path, 'w') as fp:
        fp.write('{\n "_comment": ' + json.dumps(data.get('_comment', '')) + ',\n "findings": [\n')
        fp.write(',\n'.join('  ' + json.dumps(e) for e in data['findings']))
        fp.write('\n ]\n}\n')
    print('wrote', path)
    return 0


if __name__ == '__main__':
    if len(sys.argv) > 1 and sys.argv[1] == 'collect':
        sys.exit(main(sys.argv[2:]))
    print(__doc__)
