"""Observation functions: read the public API of real objects into plain, comparable data."""
import numpy as np
from adsg_core.graph.adsg_nodes import ChoiceNode, SelectionChoiceNode, ConnectionChoiceNode
from adsg_core.graph.graph_edges import EdgeType, get_edge_type


def inst_nodes(b, inst):
    return tuple(sorted(b.name(n) for n in inst.graph.nodes if not isinstance(n, ChoiceNode)))


def inst_edges(b, inst, edge_type):
    out = []
    for u, v, k, d in inst.graph.edges(keys=True, data=True):
        if get_edge_type((u, v, k, d)) == edge_type:
            out.append((b.name(u), b.name(v)))
    return tuple(sorted(out))


def inst_key(b, inst, with_dv=False):
    """Comparable with refmodel.arch_key: (nodes, derivation edges, connection edge multiset)."""
    k = (inst_nodes(b, inst), tuple(sorted(set(inst_edges(b, inst, EdgeType.DERIVES)))),
         inst_edges(b, inst, EdgeType.CONNECTS))
    if with_dv:
        k = k + (tuple(sorted((b.name(n), v) for n, v in inst.des_var_values.items())),)
    return k


def remaining_choices(b, inst):
    return tuple(sorted(b.name(n) for n in inst.graph.nodes if isinstance(n, ChoiceNode)))


def other_edges(b, inst):
    """Edges that must not occur in a final instance (EXCLUDES) / informational (INCOMPATIBILITY)."""
    ex = inst_edges(b, inst, EdgeType.EXCLUDES)
    return ex


def graph_obs(b, dsg, deep=True):
    """Everything an existing graph object reports (C08)."""
    obs = {
        'nodes': tuple(sorted(b.name(n) for n in dsg.graph.nodes)),
        'edges': tuple(sorted(((b.name(u), b.name(v), k, get_edge_type((u, v, k, d)).name)
                               for u, v, k, d in dsg.graph.edges(keys=True, data=True)),
                              key=lambda t: (t[0], t[1], str(t[2]), t[3]))),   # edge keys are ints or strings
        'final': bool(dsg.final),
        'des_var_values': tuple(sorted((b.name(n), v) for n, v in dsg.des_var_values.items())),
        'metric_values': tuple(sorted((b.name(n), repr(v)) for n, v in dsg.metric_values.items())),
        'n_constraints': len(dsg.get_choice_constraints()),
        'constraints': tuple((c.type.name, tuple(b.name(n) for n in c.nodes)) for c in dsg.get_choice_constraints()),
    }
    if not deep:
        return obs
    conns = []
    for c in sorted((n for n in dsg.graph.nodes if isinstance(n, ConnectionChoiceNode)), key=b.name):
        try:
            sets = tuple(sorted(tuple(sorted((b.name(s), b.name(t)) for s, t in edges))
                                for edges in c.iter_conn_edges(dsg)))
        except Exception as e:
            sets = ('EXC', type(e).__name__)
        conns.append((b.name(c), sets))
    obs['conn_sets'] = tuple(conns)      # read BEFORE feasibility: reading `feasible` may refresh state shared between graphs
    obs['feasible'] = bool(dsg.feasible)
    try:
        nxt = dsg.get_ordered_next_choice_nodes()
        obs['next'] = tuple(b.name(n) for n in nxt)
    except Exception as e:  # recorded, compared like any other observation
        obs['next'] = ('EXC', type(e).__name__)
        nxt = []
    opts = []
    for c in sorted((n for n in dsg.graph.nodes if isinstance(n, SelectionChoiceNode)), key=b.name):
        opts.append((b.name(c), tuple(b.name(o) for o in dsg.get_option_nodes(c))))
    obs['options'] = tuple(opts)
    degs = []
    for n in dsg.graph.nodes:
        if hasattr(n, 'deg_list'):
            degs.append((b.name(n), None if n.deg_list is None else tuple(n.deg_list), n.deg_min, n.deg_max,
                         n.repeated_allowed))
    obs['degrees'] = tuple(sorted(degs, key=lambda t: t[0]))
    return obs


def clean_x(x):
    out = []
    for v in x:
        if isinstance(v, (float, np.floating)) and float(v) == int(v) and abs(v) < 1e9:
            out.append(int(v))
        elif isinstance(v, (int, np.integer)):
            out.append(int(v))
        else:
            out.append(float(v))
    return tuple(out)
