"""
Replay one recorded violation without any explorer:  python -m vf.replay <replay.json>
Re-runs the recorded case through the property's run_case (public API of adsg_core only) in this
fresh process.  Exit 1 (and a VIOLATION line) if the same kind of violation shows up again, 0 if not.
"""
import os
import sys
import json
import shutil
import tempfile
import importlib

VERIF = os.path.dirname(os.path.dirname(os.path.abspath(__file__)))


def main(path):
    with open(path) as fp:
        rec = json.load(fp)
    if os.environ.get('VF_REPLAY_CHILD') != '1':
        # re-exec with the recorded hash seed and a private cache
        import subprocess
        env = os.environ.copy()
        env['VF_REPLAY_CHILD'] = '1'
        env['PYTHONHASHSEED'] = str(rec.get('hash_seed', 0))
        cache = tempfile.mkdtemp(prefix='vf_replay_')
        env['XDG_CACHE_HOME'] = cache
        env['PYTHONPATH'] = VERIF + os.pathsep + env.get('PYTHONPATH', '')
        try:
            return subprocess.run([sys.executable, '-m', 'vf.replay', path], env=env, cwd=VERIF).returncode
        finally:
            shutil.rmtree(cache, ignore_errors=True)

    import warnings
    warnings.filterwarnings('ignore')
    prop = rec['property']
    mod = importlib.import_module(f'vf.props.{prop.lower()}')
    if hasattr(mod, 'worker_init'):
        mod.worker_init(rec.get('tier', 'quick'), rec.get('seed', 0))
    v = rec['violation']
    if hasattr(mod, 'replay_case'):
        res = mod.replay_case(v)
    else:
        res = mod.run_case(v['case'])
    found = [w for w in res.get('violations', []) if w.get('kind') == v.get('kind')]
    if found:
        print(f'VIOLATION property={prop} replay={path}')
        print('  kind:', v.get('kind'))
        print('  detail:', json.dumps(found[0].get('detail'), default=repr)[:1000])
        return 1
    print(f'replay {path}: no violation of kind {v.get("kind")!r} (other kinds: '
          f'{sorted({w.get("kind") for w in res.get("violations", [])})})')
    return 0


if __name__ == '__main__':
    sys.exit(main(sys.argv[1]))
