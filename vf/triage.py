"""Triage aid: histogram of a VERIF_DUMP_ALL=1 run.  python -m vf.triage C01 quick [n_examples]"""
import sys, json, re, collections


def klass(v):
    d = v['detail'] if isinstance(v['detail'], dict) else {}
    exc = d.get('exc')
    msg = ''
    if exc:
        msg = f'{exc[-2]}: ' + re.sub(r'[\[\(].*', '', str(exc[-1]))[:60]
    enc = v['case'].get('enc', '') if isinstance(v['case'], dict) else ''
    return (v['kind'], enc, msg)


def main():
    prop, tier = sys.argv[1], sys.argv[2]
    n_ex = int(sys.argv[3]) if len(sys.argv) > 3 else 1
    groups = collections.defaultdict(list)
    for line in open(f'/verif/replays/{prop}/_all_{tier}.jsonl'):
        v = json.loads(line)
        if v.get('known'):
            continue
        groups[klass(v)].append(v)
    for k, vs in sorted(groups.items(), key=lambda kv: -len(kv[1])):
        vs.sort(key=lambda v: len(json.dumps(v['case'])))
        print(len(vs), k)
        for v in vs[:n_ex]:
            print('     case  :', json.dumps(v['case'])[:900])
            print('     detail:', json.dumps(v['detail'])[:400])


if __name__ == '__main__':
    main()
