"""
Small-scope grammar for selection-layer specs (DESIGN.md 3.1/3.2): complete enumeration of all
canonical specs of a scope, simplest first.

A scope is dict(P=max pool nodes, K=max choices, M=max options, E=max extra derivation edges,
I=max incompatibility pairs, S=number of start nodes).

Canonical form: pool nodes are labelled in order of first mention in the choice part (restricted
growth); pool nodes that are mentioned only in edges / incompatibilities are symmetric among each
other and are fixed by taking the lexicographic minimum over their permutations; for two start
nodes additionally the minimum over swapping the starts.  Listing order of options, order of
choices and which node is a start node are semantic and are never merged.

Alphabet decision: a choice never lists its own originating node as an option (a self-loop after
resolution; outside anything the documentation describes).  Cycles through derivation edges and
through other choices are part of the grammar.
"""
import itertools
import json
import hashlib


def spec_id(spec):
    return hashlib.sha1(json.dumps(spec, sort_keys=True).encode()).hexdigest()[:12]


def _pool(p):
    return [f'n{i+1}' for i in range(p)]


def _gen_choices(starts, P, K, M):
    """Yield (choices, n_introduced) with restricted growth over pool labels."""

    def options(n_intro, m, origin, prefix):
        # ordered lists of m distinct pool nodes, each introduced or the next new one
        if m == 0:
            yield tuple(prefix), n_intro
            return
        cands = list(range(1, min(n_intro+1, P)+1))
        for c in cands:
            name = f'n{c}'
            if name in prefix or name == origin:   # an option is never the originating node itself
                continue
            yield from options(max(n_intro, c), m-1, origin, prefix+[name])

    def rec(k, n_intro, acc):
        if k == 0:
            yield list(acc), n_intro
            return
        origins = list(starts) + [f'n{i}' for i in range(1, min(n_intro+1, P)+1)]
        for o in origins:
            ni = n_intro
            if o.startswith('n'):
                ni = max(ni, int(o[1:]))
            for m in range(1, M+1):
                for opts, ni2 in options(ni, m, o, []):
                    cid = f'C{len(acc)}'
                    yield from rec(k-1, ni2, acc+[[cid, o, list(opts)]])

    yield from rec(K, 0, [])


def _serial(spec):
    return json.dumps([spec['starts'], spec['choices'], sorted(map(tuple, spec['edges'])),
                       sorted(tuple(sorted(p)) for p in spec['incompat'])])


def _relabel(spec, mapping):
    f = lambda x: mapping.get(x, x)
    return dict(starts=spec['starts'], nodes=spec['nodes'],
                edges=sorted([f(u), f(v)] for u, v in spec['edges']),
                choices=[[cid, f(o), [f(x) for x in opts]] for cid, o, opts in spec['choices']],
                incompat=sorted(sorted([f(u), f(v)]) for u, v in spec['incompat']))


def _first_occurrence_relabel(spec):
    """Relabel pool nodes by first mention in the choice part; the rest keep relative order."""
    order = []
    for cid, o, opts in spec['choices']:
        for x in [o]+list(opts):
            if x.startswith('n') and x not in order:
                order.append(x)
    rest = [n for n in spec['nodes'] if n not in order]
    mapping = {old: f'n{i+1}' for i, old in enumerate(order+rest)}
    return _relabel(spec, mapping), len(order)


def is_canonical(spec, n_intro):
    """spec was generated with restricted growth on the choice part (n_intro nodes introduced)."""
    me = _serial(spec)
    P = len(spec['nodes'])
    free = [f'n{i}' for i in range(n_intro+1, P+1)]
    variants = []
    if len(free) > 1:
        for perm in itertools.permutations(free):
            if list(perm) == free:
                continue
            variants.append(_relabel(spec, dict(zip(free, perm))))
    if len(spec['starts']) == 2:
        s0, s1 = spec['starts']
        sw = _relabel(spec, {s0: s1, s1: s0})
        sw, ni = _first_occurrence_relabel(sw)
        free2 = [f'n{i}' for i in range(ni+1, P+1)]
        for perm in itertools.permutations(free2):
            variants.append(_relabel(sw, dict(zip(free2, perm))))
    for v in variants:
        if _serial(v) < me:
            return False
    return True


def sel_specs(scope):
    """All canonical selection specs of a scope, simplest first (P, K, then edges, incompat)."""
    S = scope.get('S', 1)
    starts = ['s0', 's1'][:S]
    Pmax, Kmax, M, E, I = scope['P'], scope['K'], scope['M'], scope['E'], scope['I']
    min_k = scope.get('Kmin', 0)
    for P in range(0, Pmax+1):
        pool = _pool(P)
        all_nodes = starts + pool
        all_edges = [[u, v] for u in all_nodes for v in pool if u != v]
        all_pairs = [[u, v] for u, v in itertools.combinations(all_nodes, 2)]
        for K in range(min_k, Kmax+1):
            for choices, n_intro in _gen_choices(starts, P, K, M):
                mentioned_c = {x for _, o, opts in choices for x in [o]+opts}
                for ne in range(0, E+1):
                    for edges in itertools.combinations(all_edges, ne):
                        mentioned_e = mentioned_c | {x for e in edges for x in e}
                        for ni in range(0, I+1):
                            for inc in itertools.combinations(all_pairs, ni):
                                mentioned = mentioned_e | {x for p in inc for x in p}
                                if any(n not in mentioned for n in pool):
                                    continue
                                spec = dict(starts=list(starts), nodes=list(pool),
                                            edges=[list(e) for e in edges],
                                            choices=[[c, o, list(op)] for c, o, op in choices],
                                            incompat=[list(p) for p in inc])
                                if n_intro < P-1 or S == 2:
                                    if not is_canonical(spec, n_intro):
                                        continue
                                yield spec


SCOPES = {
    # quick scopes
    'SEL-q': [dict(P=3, K=2, M=2, E=2, I=1, S=1), dict(P=2, K=2, M=2, E=1, I=1, S=2)],
    'SEL-tiny': [dict(P=2, K=2, M=2, E=1, I=1, S=1)],
    'SEL-mini': [dict(P=3, K=2, M=2, E=1, I=1, S=1)],
    # thorough scopes (union; overlaps are removed by spec id)
    'SEL-t': [dict(P=3, K=2, M=2, E=2, I=1, S=1), dict(P=2, K=2, M=2, E=1, I=1, S=2),
              dict(P=4, K=2, M=3, E=1, I=1, S=1), dict(P=3, K=3, M=2, E=1, I=1, S=1),
              dict(P=3, K=2, M=2, E=3, I=2, S=1), dict(P=3, K=2, M=2, E=2, I=1, S=2)],
}


def scope_specs(name):
    seen = set()
    for scope in SCOPES[name]:
        for spec in sel_specs(scope):
            sid = spec_id(spec)
            if sid in seen:
                continue
            seen.add(sid)
            yield spec


def selftest():
    # closed-form check of the smallest scopes: K=0, P=1, E<=1, I<=1, S=1:
    # pool n1 must be mentioned: edges {s0->n1} (1 possible), pairs {s0,n1} (1 possible)
    # P=0: 1 spec (nothing).  P=1: (e,i) in {(1,0),(0,1),(1,1)} = 3  => 4 specs
    n = sum(1 for _ in sel_specs(dict(P=1, K=0, M=1, E=1, I=1, S=1)))
    assert n == 4, n
    # K=1, P=1, M=1, E=0, I=0: origin s0 (option n1) = 1 (an origin is never its own option); plus K=0/P=0 = 1
    n = sum(1 for _ in sel_specs(dict(P=1, K=1, M=1, E=0, I=0, S=1)))
    assert n == 2, n
    # canonical representatives are pairwise non-isomorphic (brute force on a small scope)
    specs = list(sel_specs(dict(P=3, K=1, M=2, E=1, I=1, S=1)))
    keys = set()
    for s in specs:
        best = None
        for perm in itertools.permutations(s['nodes']):
            v = _relabel(s, dict(zip(s['nodes'], perm)))
            ser = _serial(v)
            best = ser if best is None or ser < best else best
        assert best not in keys, s
        keys.add(best)
    # ... and complete: every labelled spec of that scope has its orbit represented
    cnt = 0
    pool = _pool(3)
    alln = ['s0']+pool
    all_edges = [[u, v] for u in alln for v in pool if u != v]
    all_pairs = [[u, v] for u, v in itertools.combinations(alln, 2)]
    for o in alln:
        for m in (1, 2):
            for opts in itertools.permutations(pool, m):
                if o in opts:
                    continue
                for ne in (0, 1):
                    for edges in itertools.combinations(all_edges, ne):
                        for ni in (0, 1):
                            for inc in itertools.combinations(all_pairs, ni):
                                spec = dict(starts=['s0'], nodes=pool, edges=[list(e) for e in edges],
                                            choices=[['C0', o, list(opts)]], incompat=[list(p) for p in inc])
                                mentioned = {o, *opts} | {x for e in edges for x in e} | {x for p in inc for x in p}
                                if any(nn not in mentioned for nn in pool):
                                    continue
                                best = min(_serial(_relabel(spec, dict(zip(pool, perm))))
                                           for perm in itertools.permutations(pool))
                                assert best in keys, spec
                                cnt += 1
    assert cnt > len(keys)
    return True


if __name__ == '__main__':
    import sys, time
    for name in sys.argv[1:]:
        t = time.time()
        n = sum(1 for _ in scope_specs(name))
        print(name, n, f'{time.time()-t:.1f}s')
