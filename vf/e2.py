"""
E2 -- explicit-state exploration of the instance-derivation transition system of one graph.

States are the real DSG objects returned by the real API; transitions are real
get_for_apply_selection_choice calls for EVERY offered choice (not only the first) and every
offered option.  BFS with a seen-set keyed by (canonical graph, assignment made so far).
"""
import collections

from adsg_core.graph.adsg_nodes import SelectionChoiceNode, ConnectionChoiceNode, ChoiceNode
from adsg_core.graph.graph_edges import EdgeType, get_edge_type

from vf import observe


def graph_key(b, dsg):
    nodes = tuple(sorted(b.name(n) for n in dsg.graph.nodes))
    edges = tuple(sorted((b.name(u), b.name(v), get_edge_type((u, v, k, d)).value)
                         for u, v, k, d in dsg.graph.edges(keys=True, data=True)))
    return nodes, edges


class State:
    __slots__ = ('dsg', 'assign', 'gkey', 'depth', 'feasible', 'next', 'path', 'exc')

    def __init__(self, dsg, assign, gkey, depth, path):
        self.dsg, self.assign, self.gkey, self.depth, self.path = dsg, assign, gkey, depth, path
        self.feasible = None
        self.next = None
        self.exc = None


def explore(b, on_state=None, on_transition=None, max_states=20000, explore_infeasible=True):
    """BFS over the derivation system of b.dsg.  Returns (states, transitions, leaves, capped).
    leaves: list of State with no offered selection choice."""
    init = b.dsg
    # choices auto-resolved while the graph was initialised (documented "last call" state, read right after build)
    auto0 = dict(getattr(b, 'init_auto', {}) or {})
    s0 = State(init, dict(auto0), graph_key(b, init), 0, [])
    seen = {(s0.gkey, frozenset(s0.assign.items())): s0}
    queue = collections.deque([s0])
    n_trans = 0
    leaves = []
    states = []
    capped = False
    while queue:
        st = queue.popleft()
        states.append(st)
        dsg = st.dsg
        st.feasible = bool(dsg.feasible)
        try:
            nxt = list(dsg.get_ordered_next_choice_nodes())
        except Exception as e:
            st.exc = ('next', type(e).__name__, str(e)[:200])
            nxt = []
        st.next = nxt
        if on_state is not None:
            on_state(st)
        sel = [c for c in nxt if isinstance(c, SelectionChoiceNode)]
        if not sel:
            leaves.append(st)
            continue
        if not st.feasible and not explore_infeasible:
            continue
        for c in sel:
            try:
                opts = list(dsg.get_option_nodes(c))
            except Exception as e:
                st.exc = ('options', type(e).__name__, str(e)[:200])
                continue
            for o in opts:
                n_trans += 1
                try:
                    succ = dsg.get_for_apply_selection_choice(c, o)
                    auto = list(succ.get_taken_single_selection_choices())
                except Exception as e:
                    if on_transition is not None:
                        on_transition(st, c, o, None, (type(e).__name__, str(e)[:200]))
                    continue
                assign = dict(st.assign)
                assign[b.name(c)] = b.name(o)
                for ac, ao in auto:
                    assign[b.name(ac)] = None if ao is None else b.name(ao)
                gk = graph_key(b, succ)
                key = (gk, frozenset(assign.items()))
                if on_transition is not None:
                    on_transition(st, c, o, succ, None)
                if key in seen:
                    continue
                if len(seen) >= max_states:
                    capped = True
                    continue
                ns = State(succ, assign, gk, st.depth+1, st.path+[(b.name(c), b.name(o))])
                seen[key] = ns
                queue.append(ns)
    return states, n_trans, leaves, capped
