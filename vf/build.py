"""
Spec -> real adsg_core graph, through the public construction API only.

A spec is plain JSON-able data (DESIGN.md 3.1):

  starts   : [name, ...]                       start nodes (generic)
  nodes    : [name, ...]                       generic pool nodes (creation order = id order)
  edges    : [[u, v], ...]                     derivation edges
  choices  : [[cid, origin, [opt, ...]], ...]  selection choices, listing order is semantic
  incompat : [[u, v], ...]
  cc       : [[TYPE, [cid, ...]], ...]         choice constraints (selection choices or dv names)
  conn     : {name: {deg: <spec>, rep: bool, anchor: name|None}}   connector nodes
  grp      : {name: [member connector names]}
  cch      : [[kid, [src...], [tgt...], [[s, t], ...]], ...]     connection choices
  dv       : {name: {anchor: name, options: n} | {anchor: name, bounds: [lo, hi]}}
  met      : {name: {anchor: name, dir:, ref:, type:}}

Every node gets an *integer* obj_id so that node hashing (and therefore every set/dict iteration
order inside the library) is a deterministic function of (id assignment, PYTHONHASHSEED) instead
of memory addresses.  The id assignment is a parameter: ids[i] is the obj_id of the i-th created
node (default 1, 2, 3, ...; 0 is never used because the library treats a falsy obj_id as "unset").
"""
import contextlib
import math

from adsg_core.graph import adsg_basic
from adsg_core.graph.adsg_basic import BasicDSG
from adsg_core.graph.adsg_nodes import (NamedNode, ConnectorNode, ConnectorDegreeGroupingNode, DesignVariableNode,
                                        MetricNode, MetricType, SelectionChoiceNode, ConnectionChoiceNode)
from adsg_core.graph.choice_constraints import ChoiceConstraintType

DEG_ALPHABET = {
    '1': dict(deg_list=[1]),
    '0..1': dict(deg_min=0, deg_max=1),
    '1..2': dict(deg_min=1, deg_max=2),
    '0,2': dict(deg_list=[0, 2]),
    '2': dict(deg_list=[2]),
    '0..*': dict(deg_min=0, deg_max=math.inf),
    '1..*': dict(deg_min=1, deg_max=math.inf),
    '0..2': dict(deg_min=0, deg_max=2),
    '1,2': dict(deg_list=[1, 2]),
    '0': dict(deg_list=[0]),
    '2..*': dict(deg_min=2, deg_max=math.inf),
    '1,3': dict(deg_list=[1, 3]),
    '3': dict(deg_list=[3]),
}


def deg_allowed(deg):
    """(finite allowed list | None, open-ended minimum | None) of a degree-alphabet entry."""
    kw = DEG_ALPHABET[deg]
    if 'deg_list' in kw:
        return list(kw['deg_list']), None
    if kw['deg_max'] == math.inf:
        return None, kw['deg_min']
    return list(range(kw['deg_min'], kw['deg_max']+1)), None


class IdAlloc:
    def __init__(self, ids=None):
        self.ids = ids
        self.n = 0

    def next(self):
        i = self.n
        self.n += 1
        if self.ids is not None and i < len(self.ids):
            return int(self.ids[i])
        return 1000 + i if self.ids is not None else i + 1


def _set_id(node, obj_id):
    node._obj_id = obj_id
    node.update_node_id()
    return node


@contextlib.contextmanager
def _choice_factory(alloc, kind):
    """For the duration of one add_*_choice call, make the library create its choice node with a
    deterministic integer obj_id (the genuine class is instantiated; only the id is set before the
    node enters any dict)."""
    name = 'SelectionChoiceNode' if kind == 'sel' else 'ConnectionChoiceNode'
    real = getattr(adsg_basic, name)

    def factory(*a, **kw):
        return _set_id(real(*a, **kw), alloc.next())

    setattr(adsg_basic, name, factory)
    try:
        yield
    finally:
        setattr(adsg_basic, name, real)


class Built:
    """The real graph plus label <-> node maps."""

    def __init__(self):
        self.dsg = None          # initialised BasicDSG (after set_start_nodes)
        self.raw = None          # the object the edges were added to (before set_start_nodes)
        self.nodes = {}          # name -> node (generic, connector, grouping, dv, metric)
        self.choices = {}        # cid -> SelectionChoiceNode
        self.cchoices = {}       # kid -> ConnectionChoiceNode
        self.names = {}          # node -> name  (all, incl. choices)
        self.error = None        # exception raised while building, if any
        self.init_auto = {}      # choices auto-resolved during initialisation {cid: option name | None}
        self.staged = False      # built through the staged (edit in place, initialise again) history

    def name(self, node):
        return self.names.get(node, repr(node))


def build(spec, ids=None, initialize=True, constrain=True, staged_edges=None):
    """staged_edges: derivation edges of the spec that are withheld at first, added IN PLACE to the already initialised graph
    object, which is then initialised again (in-place editing of an initialised BasicDSG).  Only done if the first
    initialisation removed / resolved nothing (otherwise the two build histories legitimately differ): b.staged tells."""
    alloc = IdAlloc(ids)
    b = Built()
    dsg = BasicDSG()

    def reg(name, node):
        b.nodes[name] = node
        b.names[node] = name
        return node

    for name in list(spec.get('starts', [])) + list(spec.get('nodes', [])):
        reg(name, NamedNode(name, obj_id=alloc.next()))
    for name, c in spec.get('conn', {}).items():
        reg(name, ConnectorNode(name, repeated_allowed=bool(c.get('rep', False)), obj_id=alloc.next(),
                                **DEG_ALPHABET[c['deg']]))
    for name in spec.get('grp', {}):
        reg(name, _set_id(ConnectorDegreeGroupingNode(name), alloc.next()))
    for name, d in spec.get('dv', {}).items():
        kw = dict(idx=d['idx']) if 'idx' in d else {}     # 'name' + 'idx': several dv nodes sharing one name
        if 'options' in d:
            node = DesignVariableNode(d.get('name', name), options=list(range(d['options'])), obj_id=alloc.next(), **kw)
        else:
            node = DesignVariableNode(d.get('name', name), bounds=tuple(d['bounds']), obj_id=alloc.next(), **kw)
        reg(name, node)
    for name, m in spec.get('met', {}).items():
        type_ = m.get('type')
        type_ = None if type_ is None else MetricType[type_]
        reg(name, _set_id(MetricNode(name, direction=m.get('dir'), ref=m.get('ref'), type_=type_), alloc.next()))

    N = b.nodes
    for name in spec.get('starts', []):
        dsg.add_node(N[name])
    for name in spec.get('nodes', []):
        if spec.get('add_isolated', False):
            dsg.add_node(N[name])
    staged = [tuple(e) for e in (staged_edges or [])]
    for u, v in spec.get('edges', []):
        if (u, v) in staged:
            dsg.add_node(N[u])
            dsg.add_node(N[v])
            continue
        dsg.add_edge(N[u], N[v])
    for kind in ('conn', 'dv', 'met'):
        for name, c in spec.get(kind, {}).items():
            if c.get('anchor') is not None:
                dsg.add_edge(N[c['anchor']], N[name])
    for cid, origin, opts in spec.get('choices', []):
        with _choice_factory(alloc, 'sel'):
            node = dsg.add_selection_choice(cid, N[origin], [N[o] for o in opts])
        assert type(node) is SelectionChoiceNode
        b.choices[cid] = node
        b.names[node] = cid
    for kid, srcs, tgts, excl in spec.get('cch', []):
        def conv(lst):
            out = []
            for s in lst:
                if s in spec.get('grp', {}):
                    out.append((N[s], [N[m] for m in spec['grp'][s]]))
                else:
                    out.append(N[s])
            return out
        with _choice_factory(alloc, 'conn'):
            node = dsg.add_connection_choice(kid, conv(srcs), conv(tgts),
                                             exclude=[(N[s], N[t]) for s, t in excl] or None)
        assert type(node) is ConnectionChoiceNode
        b.cchoices[kid] = node
        b.names[node] = kid
    for u, v in spec.get('incompat', []):
        dsg.add_incompatibility_constraint([N[u], N[v]])

    b.raw = dsg
    if not initialize:
        b.dsg = dsg
        return b
    init_auto = {}

    def grab(d, prev):
        cur = d.get_taken_single_selection_choices()
        if cur is not prev:  # a new list object = a resolution pass ran during the last call
            for c, o in cur:
                init_auto[b.name(c)] = None if o is None else b.name(o)
        return cur

    prev = dsg.get_taken_single_selection_choices()
    n_raw = set(dsg.graph.nodes)
    dsg = dsg.set_start_nodes({N[s] for s in spec['starts']})
    prev = grab(dsg, prev)
    b.staged = False
    if staged:
        if set(dsg.graph.nodes) == n_raw and not init_auto:
            for u, v in staged:          # edit the INITIALISED object in place, then initialise it again
                dsg.add_edge(N[u], N[v])
            dsg = dsg.set_start_nodes({N[s] for s in spec['starts']})
            prev = grab(dsg, prev)
            b.staged = True
        else:
            return build(spec, ids=ids, initialize=initialize, constrain=constrain)
    if constrain:
        for ctype, members in spec.get('cc', []):
            nodes = [b.choices[m] if m in b.choices else N[m] for m in members]
            dsg = dsg.constrain_choices(ChoiceConstraintType[ctype], nodes)
            prev = grab(dsg, prev)
    b.dsg = dsg
    b.init_auto = init_auto
    return b
