"""
E5 -- exhaustive schedule exploration of the REAL run_timeout function body over a modelled thread environment.

The function object adsg_core...time_limiter.run_timeout is re-instantiated over a copy of its module globals in which
`multiprocessing`, `threading`, `ctypes`, `gc` are bound to the modelled environment below (the module itself is not
modified).  Virtual threads are real OS threads that pass a baton, so the unmodified bytecode of run_timeout (and nested
calls of it) runs; every modelled API call and every step of the scripted worker function is a scheduling point.

Modelled facts (each is re-measured on the real interpreter by calibrate() at the start of every run):
  F1  PyThreadState_SetAsyncExc given an exception INSTANCE delivers `delivered_for_instance` (SystemError on CPython 3.12)
      to the target; given a class it delivers an instance of that class;
  F2  the pool's worker loop catches Exception around a task (worker survives, failed result is delivered) but a
      BaseException kills the worker thread and the result is never delivered;
  F3  ThreadPool.terminate() drains the task queue, posts the exit sentinel and does NOT join worker threads;
  F4  PyThreadState_SetAsyncExc returns 0 for a thread that has finished;
  F5  an asynchronous exception is only raised at the next bytecode boundary of the target: never inside a blocking native
      call (lock wait, sleep), but immediately after it returns.
Abstractions: the pool's task/result handler threads are merged into the queue operations except for the delivery of a
result, which is a separate scheduler action; dead workers are not replaced (_repopulate_pool); thread idents are unique.
"""
import collections
import threading
import types
import multiprocessing
import sys

REAL_MP_TIMEOUT = multiprocessing.TimeoutError


class SchedAbort(BaseException):
    pass


class Deadlock(Exception):
    pass


class VT:
    """A virtual thread backed by a real OS thread and a baton semaphore."""

    def __init__(self, sched, name, body):
        self.sched = sched
        self.id = len(sched.vts)
        self.name = name
        self.ident = 1000 + self.id
        self.body = body
        self.sem = threading.Semaphore(0)
        self.state = 'new'           # new | ready | blocked | done
        self.cond = None
        self.timed = False
        self.wake = None
        self.pending_exc = None      # asynchronous exception set by SetAsyncExc
        self.in_func = 0             # nesting depth inside scripted worker functions
        self.died_with = None        # exception that killed the thread (threading.excepthook)
        self.at = None               # label of the scheduling point the thread is waiting at
        self.handle = VThreadHandle(self)
        self.real = threading.Thread(target=self._run, daemon=True, name=f'vt-{name}')
        sched.vts.append(self)

    def _run(self):
        self.sem.acquire()
        sched = self.sched
        try:
            if sched.abort:
                raise SchedAbort()
            self.state = 'ready'
            self.body()
        except SchedAbort:
            pass
        except BaseException as e:   # what threading.excepthook would see
            self.died_with = e
            sched.log(('thread-died', self.name, type(e).__name__))
        finally:
            self.state = 'done'
            sched.on_thread_exit(self)


class VThreadHandle:
    """What threading.current_thread() returns inside a virtual thread."""

    def __init__(self, vt):
        self._vt = vt

    @property
    def ident(self):
        return self._vt.ident

    def is_alive(self):
        self._vt.sched.point('thread.is_alive')
        return self._vt.state != 'done'

    def join(self, timeout=None):
        sched = self._vt.sched
        sched.point('thread.join')
        if self._vt.state != 'done':
            sched.block(lambda: self._vt.state == 'done', timed=timeout is not None, label='join.wait')


class Sched:
    def __init__(self, prefix=(), facts=None, preemption_bound=None):
        self.prefix = list(prefix)
        self.pos = 0
        self.trace = []      # (n_alternatives, chosen index, label, cost)
        self.vts = []
        self.cur = None
        self.events = []
        self.actions = []    # pseudo actions: dict(label, enabled, run)
        self.abort = False
        self.deadlock = False
        self.done_evt = threading.Event()
        self.facts = facts or dict(delivered_for_instance='SystemError')
        self.preemptions = 0
        self.policy = None           # optional callable(sched, alts, me) -> index (plan-driven runs of vf/e5_real.py)
        self.max_steps = 5000
        self.diverged = None

    # ---- logging
    def log(self, ev):
        self.events.append(ev)

    # ---- thread management
    def spawn(self, name, body):
        vt = VT(self, name, body)
        vt.real.start()
        vt.state = 'ready'
        return vt

    def start(self, main_body):
        vt = VT(self, 'caller', main_body)
        vt.real.start()
        self.cur = vt
        vt.sem.release()
        self.done_evt.wait(60)
        if not self.done_evt.is_set():
            self.abort = True
            self.diverged = 'execution did not finish within 60 s (explorer bug or runaway)'
            for v in self.vts:
                v.sem.release()

    def on_thread_exit(self, vt):
        if self.abort:
            self._maybe_finish()
            return
        self.cur = None
        nxt = self._dispatch(leaving=vt)
        if nxt is not None and not self.abort:
            self.cur = nxt
            nxt.sem.release()

    def _maybe_finish(self):
        if all(v.state == 'done' for v in self.vts):
            self.done_evt.set()

    # ---- the scheduler proper
    def _alternatives(self, me):
        # canonical order, the default (alternative 0) first: the running thread continues if it can, then the other
        # runnable threads by id, then pending environment actions (result delivery), and only last a timeout firing --
        # so the all-default execution is "the function completes in time"
        alts = []
        order = sorted(self.vts, key=lambda v: (0 if v is me else 1, v.id))
        late = []
        for v in order:
            if v.state == 'ready':
                alts.append(('run', v, f'{v.name}'))
            elif v.state == 'blocked':
                if v.cond():
                    alts.append(('wake', v, f'{v.name}:wake'))
                elif v.timed:
                    late.append(('timeout', v, f'{v.name}:timeout'))
        for a in self.actions:
            if a['enabled']():
                alts.append(('act', a, a['label']))
        return alts + late

    def _dispatch(self, leaving=None, me=None, label=''):
        """Pick the next thread to run.  Called by the thread holding the baton."""
        while True:
            if len(self.trace) > self.max_steps:
                self.diverged = 'step limit'
                self._abort_all()
                return None
            alts = self._alternatives(me)
            if not alts:
                if all(v.state == 'done' for v in self.vts):
                    self.done_evt.set()
                    return None
                self.deadlock = True
                self.log(('deadlock', [(v.name, v.state) for v in self.vts]))
                self._abort_all()
                return None
            if self.policy is not None:
                k = self.policy(self, alts, me)
            elif self.pos < len(self.prefix):
                k = self.prefix[self.pos]
                if k >= len(alts):
                    self.diverged = f'replay divergence at choice {self.pos}: {k} >= {len(alts)}'
                    self._abort_all()
                    return None
            else:
                k = 0
            self.pos += 1
            kind, obj, lab = alts[k]
            # a preemption = switching away from a thread that could have continued
            preempt = 1 if (me is not None and me.state == 'ready' and not (kind in ('run',) and obj is me)
                            and kind != 'act') else 0
            alt0_is_self = bool(me is not None and alts[0][0] == 'run' and alts[0][1] is me)
            self.trace.append((len(alts), k, lab, alt0_is_self, preempt))
            self.preemptions += preempt
            if kind == 'act':
                obj['run']()
                continue
            if kind == 'wake':
                obj.state = 'ready'
                obj.wake = 'cond'
            elif kind == 'timeout':
                obj.state = 'ready'
                obj.wake = 'timeout'
                self.log(('timeout-fired', obj.name))
            return obj

    def _abort_all(self):
        self.abort = True
        for v in self.vts:
            v.sem.release()
        self.done_evt.set()

    def _switch(self, me, nxt):
        if nxt is None:
            if self.abort:
                raise SchedAbort()
            return
        self.cur = nxt
        if nxt is me:
            return
        nxt.sem.release()
        me.sem.acquire()
        if self.abort:
            raise SchedAbort()
        self.cur = me

    def point(self, label, interruptible=True):
        """A scheduling point of the current virtual thread."""
        me = self.cur_vt()
        me.state = 'ready'
        me.at = label
        nxt = self._dispatch(me=me, label=label)
        self._switch(me, nxt)
        if interruptible:
            self.deliver(me)

    def block(self, cond, timed, label):
        """Block the current virtual thread in a native wait until cond() holds (or the timeout action is chosen)."""
        me = self.cur_vt()
        me.state = 'blocked'
        me.at = label
        me.cond, me.timed, me.wake = cond, timed, None
        nxt = self._dispatch(me=me, label=label)
        self._switch(me, nxt)
        me.cond = None
        wake = me.wake
        # F5: a pending asynchronous exception is raised right after the native call returns
        self.deliver(me)
        return wake

    def deliver(self, me):
        if me.pending_exc is not None:
            exc = me.pending_exc
            me.pending_exc = None
            self.log(('async-delivered', me.name))
            raise self.materialise(exc)

    def materialise(self, exc):
        if isinstance(exc, type):
            return exc()
        kind = self.facts.get('delivered_for_instance', 'SystemError')
        if kind == 'SystemError':
            return SystemError(f'_PyErr_SetObject: exception {exc!r} is not a BaseException subclass')
        return exc   # an interpreter that raises the instance itself

    def cur_vt(self):
        t = threading.current_thread()
        for v in self.vts:
            if v.real is t:
                return v
        raise RuntimeError('not a virtual thread')


# ------------------------------------------------------------------------------------------------
# the modelled environment
# ------------------------------------------------------------------------------------------------

class VResult:
    def __init__(self, sched, pool):
        self.sched, self.pool = sched, pool
        self.ready = False
        self.success = None
        self.value = None

    def get(self, timeout=None):
        s = self.sched
        s.point('result.get')
        if not self.ready:
            wake = s.block(lambda: self.ready, timed=timeout is not None, label='get.wait')
            if not self.ready:
                s.log(('get-timeout', self.pool.name))
                raise REAL_MP_TIMEOUT()
        if self.success:
            return self.value
        raise self.value


class VPool:
    _count = [0]

    def __init__(self, sched, processes=None):
        self.sched = sched
        self.name = f'pool{len([e for e in sched.events if e[0] == "pool-created"])}'
        sched.log(('pool-created', self.name))
        self.inqueue = collections.deque()
        self.outqueue = collections.deque()
        self.state = 'RUN'
        sched.point('pool.create')
        self.worker = sched.spawn(f'{self.name}.worker', self._worker)
        sched.actions.append(dict(label=f'{self.name}:deliver', enabled=lambda: len(self.outqueue) > 0, run=self._deliver))

    def _deliver(self):
        job, (ok, val) = self.outqueue.popleft()
        job.success, job.value, job.ready = ok, val, True

    def _worker(self):
        s = self.sched
        while True:
            if not self.inqueue:
                s.block(lambda: len(self.inqueue) > 0, timed=False, label='worker.get')   # native wait on the queue
            task = self.inqueue.popleft()
            if task is None:
                break
            job, func, args, kwds = task
            try:
                s.point('task.start')            # inside the try: an async exception here becomes a failed result
                result = (True, func(*args, **kwds))
            except Exception as e:               # F2: BaseException is not caught -> thread dies, no result
                result = (False, e)
            self.outqueue.append((job, result))
            s.point('worker.between')            # unprotected region of the worker loop

    def __enter__(self):
        return self

    def __exit__(self, *exc):
        self.terminate()

    def terminate(self):
        s = self.sched
        s.point('pool.terminate')
        self.state = 'TERMINATE'
        self.inqueue.clear()                     # F3: drain, post sentinel, do not join workers
        self.inqueue.append(None)
        s.log(('pool-terminated', self.name))

    def apply_async(self, func, args=(), kwds=None):
        s = self.sched
        s.point('pool.apply_async')
        job = VResult(s, self)
        self.inqueue.append((job, func, args, kwds or {}))
        return job

    def apply(self, func, args=(), kwds=None):
        return self.apply_async(func, args, kwds).get()


class _Box:
    def __init__(self, value):
        self.value = value


def make_env(sched):
    """Fake modules for the globals of the re-instantiated run_timeout."""
    mp = types.SimpleNamespace()
    mp.TimeoutError = REAL_MP_TIMEOUT
    mp.pool = types.SimpleNamespace(ThreadPool=lambda processes=None: VPool(sched, processes))

    th = types.SimpleNamespace()
    th.current_thread = lambda: sched.cur_vt().handle

    def set_async_exc(ident_box, exc_box):
        sched.point('SetAsyncExc')
        ident = ident_box.value if isinstance(ident_box, _Box) else ident_box
        exc = exc_box.value if isinstance(exc_box, _Box) else exc_box
        for v in sched.vts:
            if v.ident == ident and v.state != 'done':
                v.pending_exc = exc
                sched.log(('async-set', v.name))
                return 1
        sched.log(('async-set', None))
        return 0                                  # F4

    ct = types.SimpleNamespace()
    ct.c_long = _Box
    ct.py_object = _Box
    ct.pythonapi = types.SimpleNamespace(PyThreadState_SetAsyncExc=set_async_exc)

    g = types.SimpleNamespace()
    g.collect = lambda: sched.point('gc.collect')
    return dict(multiprocessing=mp, threading=th, ctypes=ct, gc=g, gevent=None)


def instantiate_run_timeout(sched):
    """The real function body over the modelled globals."""
    from adsg_core.optimization.assign_enc import time_limiter
    real = time_limiter.run_timeout
    glb = dict(real.__globals__)
    glb.update(make_env(sched))
    return types.FunctionType(real.__code__, glb, real.__name__, real.__defaults__, real.__closure__)


# ------------------------------------------------------------------------------------------------
# scripted worker functions
# ------------------------------------------------------------------------------------------------

class OwnTimeout(TimeoutError):
    pass


ENDINGS = {
    'ret': None,
    'ValueError': ValueError,
    'OwnTimeout': OwnTimeout,
    'KeyboardInterrupt': KeyboardInterrupt,
}


def make_func(sched, script, tag, run_timeout_v=None, results=None):
    """script = dict(steps=[...], end=...).  steps: 'i' interruptible, 'n' native block, 'sK'/'sE'/'sB' swallow once with
    except KeyboardInterrupt / Exception / BaseException, ('call', inner_script) nested run_timeout."""
    # 'retExc': the function finishes in time and RETURNS an exception instance (an error reported as a value)
    marker = TimeoutError('returned as a value') if script['end'] == 'retExc' else object()

    def f():
        vt = sched.cur_vt()
        vt.in_func += 1
        sched.log(('func-enter', tag, vt.name))
        try:
            for k, st in enumerate(script['steps']):
                try:
                    if st == 'i':
                        sched.point(f'{tag}.step{k}')
                    elif st == 'n':
                        sched.point(f'{tag}.step{k}', interruptible=False)   # native call: nothing is delivered inside it ...
                        sched.deliver(sched.cur_vt())                         # ... but right after it returns (F5)
                    elif st in ('sK', 'sE', 'sB'):
                        cls = {'sK': KeyboardInterrupt, 'sE': Exception, 'sB': BaseException}[st]
                        try:
                            sched.point(f'{tag}.step{k}')
                        except SchedAbort:
                            raise
                        except cls as e:
                            sched.log(('swallowed', tag, k, type(e).__name__))
                    elif isinstance(st, (list, tuple)) and st[0] == 'call':
                        inner = make_func(sched, st[1], tag + '>inner', run_timeout_v, results)
                        try:
                            v = run_timeout_v(1.0, inner[0])
                            sched.log(('inner-outcome', tag, 'return'))
                        except SchedAbort:
                            raise
                        except TimeoutError:
                            sched.log(('inner-outcome', tag, 'TimeoutError'))
                        except Exception as e:
                            sched.log(('inner-outcome', tag, type(e).__name__))
                except SchedAbort:
                    raise
                except BaseException as e:
                    sched.log(('step-exc', tag, k, type(e).__name__))
                    if results is not None and e is results.get('own_exc_' + tag + '>inner'):
                        # the inner function's own non-Exception failure (re-raised by the inner run_timeout) is not caught
                        # by this function: it is now THIS function's own failure
                        results['own_exc_' + tag] = e
                        sched.log(('func-raise', tag, 'inner:' + type(e).__name__))
                    raise
            end = script['end']
            if end in ('ret', 'retExc'):
                sched.log(('func-return', tag))
                return marker
            exc = ENDINGS[end]('own')
            results['own_exc_' + tag] = exc
            sched.log(('func-raise', tag, end))
            raise exc
        finally:
            vt.in_func -= 1
            sched.log(('func-exit', tag, vt.name))
    return f, marker


def run_execution(scenario, prefix=(), facts=None, policy=None):
    """One complete execution of a scenario under the schedule prefix (default choice 0 afterwards)."""
    sched = Sched(prefix, facts=facts)
    sched.policy = policy
    rt = instantiate_run_timeout(sched)
    results = dict(calls=[])

    def main():
        for ci, call in enumerate(scenario['calls']):
            f, marker = make_func(sched, call, f'f{ci}', rt, results)
            rec = dict(tag=f'f{ci}')
            n_ev = len(sched.events)
            try:
                v = rt(1.0, f)
                rec['outcome'] = 'return' if v is marker else 'return-other'
            except SchedAbort:
                raise
            except BaseException as e:
                rec['outcome'] = 'raise'
                rec['exc_type'] = type(e).__name__
                rec['exc_exact_builtin_timeout'] = type(e) is TimeoutError
                rec['exc_is_own'] = e is results.get(f'own_exc_f{ci}')
            # at the moment run_timeout has returned: who is still inside a scripted function?
            rec['still_in_func'] = [v.name for v in sched.vts if v.in_func > 0]
            rec['events'] = sched.events[n_ev:]
            results['calls'].append(rec)
            sched.point(f'after-call{ci}')

    sched.start(main)
    results['deadlock'] = sched.deadlock
    results['diverged'] = sched.diverged
    results['trace'] = sched.trace
    results['events'] = sched.events
    results['threads'] = [(v.name, v.state, type(v.died_with).__name__ if v.died_with else None) for v in sched.vts]
    results['caller_async'] = any(e[0] == 'async-set' and e[1] == 'caller' for e in sched.events)
    return results


def explore(scenario, check, facts=None, preemption_bound=None, max_executions=200000, deviation_bound=None):
    """DFS over all schedules (stateless, replay from scratch).  check(results) -> list of violations."""
    stack = [[]]
    n_exec = 0
    n_points = 0
    outcomes = collections.Counter()
    violations = []
    capped = False
    schedules = []
    while stack:
        prefix = stack.pop()
        res = run_execution(scenario, prefix, facts=facts)
        n_exec += 1
        if res['diverged']:
            violations.append(dict(kind='explorer-divergence', detail=res['diverged'], schedule=prefix))
            break
        tr = res['trace']
        n_points += len(tr)
        choices = [t[1] for t in tr]
        schedules.append(choices)
        outcomes[tuple((c.get('outcome'), c.get('exc_type')) for c in res['calls'])] += 1
        for v in check(res):
            v['schedule'] = choices
            violations.append(v)
        # branch on every later point
        pre = 0
        dev = 0
        for i in range(len(tr)):
            n_alt, k, lab, alt0_is_self, preempt = tr[i]
            if i >= len(prefix):
                for alt in range(1, n_alt):
                    # leaving the running thread although it could continue (alternative 0) is a preemption;
                    # any non-default choice is a deviation
                    cost = pre + (1 if alt0_is_self else 0)
                    if preemption_bound is not None and cost > preemption_bound:
                        continue
                    if deviation_bound is not None and dev + 1 > deviation_bound:
                        continue
                    stack.append(choices[:i] + [alt])
            pre += preempt
            dev += 1 if k != 0 else 0
        if n_exec >= max_executions:
            capped = True
            break
    return dict(executions=n_exec, points=n_points, outcomes=dict((str(k), v) for k, v in outcomes.items()),
                violations=violations, capped=capped, schedules=schedules)


# ------------------------------------------------------------------------------------------------
# calibration of the modelled facts on the real interpreter
# ------------------------------------------------------------------------------------------------

def calibrate():
    import ctypes
    import time
    import multiprocessing.pool
    facts = {}
    # F1: what does the target see for an instance / a class?
    seen = {}

    def target(key):
        try:
            t0 = time.time()
            while time.time()-t0 < 2:
                pass
            seen[key] = None
        except BaseException as e:
            seen[key] = type(e).__name__
    for key, obj in (('instance', KeyboardInterrupt()), ('class', KeyboardInterrupt)):
        t = threading.Thread(target=target, args=(key,), daemon=True)
        t.start()
        time.sleep(0.05)
        r = ctypes.pythonapi.PyThreadState_SetAsyncExc(ctypes.c_long(t.ident), ctypes.py_object(obj))
        t.join(5)
        facts[f'setasync_ret_live_{key}'] = r
    facts['delivered_for_instance'] = seen.get('instance')
    facts['delivered_for_class'] = seen.get('class')
    # F4: finished thread
    t = threading.Thread(target=lambda: None)
    t.start()
    t.join()
    facts['setasync_ret_dead'] = ctypes.pythonapi.PyThreadState_SetAsyncExc(ctypes.c_long(t.ident), ctypes.py_object(KeyboardInterrupt))
    # F2: Exception caught by the worker loop, BaseException kills the worker and the result never arrives
    with multiprocessing.pool.ThreadPool(processes=1) as pool:
        th = pool.apply(threading.current_thread)

        def raise_se():
            raise SystemError('x')
        try:
            pool.apply_async(raise_se).get(timeout=2)
            facts['exception_result'] = 'returned'
        except SystemError:
            facts['exception_result'] = 'reraised'
        facts['worker_alive_after_exception'] = th.is_alive()

        def raise_ki():
            raise KeyboardInterrupt()
        import io
        import contextlib
        old_hook = threading.excepthook
        threading.excepthook = lambda a: None
        try:
            try:
                pool.apply_async(raise_ki).get(timeout=0.5)
                facts['baseexception_result'] = 'returned'
            except multiprocessing.TimeoutError:
                facts['baseexception_result'] = 'never-delivered'
            except KeyboardInterrupt:
                facts['baseexception_result'] = 'reraised'
            time.sleep(0.05)
            facts['worker_alive_after_baseexception'] = th.is_alive()
        finally:
            threading.excepthook = old_hook
    # F3: terminate does not join a busy worker
    gate = threading.Event()
    pool = multiprocessing.pool.ThreadPool(processes=1)
    th = pool.apply(threading.current_thread)
    pool.apply_async(gate.wait)
    time.sleep(0.05)
    t0 = time.time()
    pool.terminate()
    facts['terminate_returned_while_worker_busy'] = th.is_alive() and (time.time()-t0) < 1.5
    gate.set()
    th.join(2)
    facts['worker_exits_after_terminate'] = not th.is_alive()
    # F5: no delivery inside a native wait, delivery right after it
    order = []
    ev = threading.Event()

    def native_then_py():
        try:
            ev.wait(1.0)
            order.append('after-wait')
            for _ in range(1000):
                pass
            order.append('no-exception')
        except BaseException as e:
            order.append(type(e).__name__)
    t = threading.Thread(target=native_then_py, daemon=True)
    t.start()
    time.sleep(0.05)
    ctypes.pythonapi.PyThreadState_SetAsyncExc(ctypes.c_long(t.ident), ctypes.py_object(KeyboardInterrupt))
    time.sleep(0.2)
    facts['delivered_inside_native_wait'] = not t.is_alive()
    ev.set()
    t.join(2)
    facts['after_native_wait'] = list(order)
    return facts


EXPECTED_FACTS = dict(setasync_ret_live_instance=1, setasync_ret_live_class=1, delivered_for_class='KeyboardInterrupt',
                      setasync_ret_dead=0, exception_result='reraised', worker_alive_after_exception=True,
                      baseexception_result='never-delivered', worker_alive_after_baseexception=False,
                      terminate_returned_while_worker_busy=True, worker_exits_after_terminate=True,
                      delivered_inside_native_wait=False)
