"""
Oracle self-test (setup_cmd and preamble of the graph-level checks): the reference model must
reproduce the worked examples of docs/theory.md.  The code under test is not consulted.
"""
import sys
from vf import refmodel

THEORY_SEL = dict(
    starts=['N1'], nodes=['N0']+['N%d' % i for i in range(2, 14)],
    edges=[['N1', 'N2'], ['N1', 'N3'], ['N4', 'N7'], ['N5', 'N7'], ['N5', 'N6'], ['N6', 'N8'], ['N8', 'N9'],
           ['N9', 'N10'], ['N10', 'N8'], ['N13', 'N7'], ['N0', 'N4']],
    choices=[['C1', 'N3', ['N4', 'N5', 'N6', 'N12', 'N13']], ['C2', 'N7', ['N8', 'N11']]],
    incompat=[['N12', 'N2'], ['N13', 'N9']])

THEORY_SEL_TABLE = {  # architecture -> nodes (theory.md table), permanent N1 N2 N3 everywhere
    ('N4', 'N8'): {'N4', 'N7', 'N8', 'N9', 'N10'},
    ('N4', 'N11'): {'N4', 'N7', 'N11'},
    ('N5', 'N8'): {'N5', 'N6', 'N7', 'N8', 'N9', 'N10'},
    ('N5', 'N11'): {'N5', 'N6', 'N7', 'N8', 'N9', 'N10', 'N11'},
    ('N6', None): {'N6', 'N8', 'N9', 'N10'},
    ('N13', 'N11'): {'N7', 'N11', 'N13'},
}

THEORY_CONN = dict(
    starts=['a'], nodes=['o1', 'o2'], edges=[], choices=[['C1', 'a', ['o1', 'o2']]],
    conn={'S1': dict(deg='1..2', rep=True, anchor='a'), 'S2': dict(deg='1..2', rep=True, anchor='o1'),
          'S3': dict(deg='0..2', rep=True, anchor='a'), 'T1': dict(deg='1', rep=False, anchor='a'),
          'T2': dict(deg='0,2', rep=True, anchor='a')},
    grp={'G': ['S1', 'S2']},
    cch=[['K', ['G', 'S3'], ['T1', 'T2'], []]])

# rows of the theory.md table: (G->T1, G->T2, S3->T1, S3->T2)
THEORY_CONN_YES = {(0, 2, 1, 0), (1, 1, 0, 1), (1, 2, 0, 0)}
THEORY_CONN_NO = {(0, 1, 1, 1), (1, 0, 0, 0), (1, 0, 0, 2), (0, 2, 1, 0), (1, 1, 0, 1)}


def _conn_rows(sets):
    rows = set()
    for es in sets:
        rows.add((es.count(('G', 'T1')), es.count(('G', 'T2')), es.count(('S3', 'T1')), es.count(('S3', 'T2'))))
    return rows


def run():
    archs = refmodel.selection_architectures(THEORY_SEL)
    adm = [a for a in archs if a['admissible']]
    inadm = [a for a in archs if not a['admissible']]
    assert len(adm) == 6 and len(inadm) == 2, (len(adm), len(inadm))
    for a in adm:
        key = (a['assign']['C1'], a['assign'].get('C2'))
        assert a['nodes'] == frozenset(THEORY_SEL_TABLE[key] | {'N1', 'N2', 'N3'}), (key, sorted(a['nodes']))
    assert {a['assign']['C1'] for a in inadm} == {'N12', 'N13'}

    for ctype, exp in (('LINKED', {(0, 0), (1, 1), (2, 2)}),
                       ('PERMUTATION', {(0, 1), (0, 2), (1, 0), (1, 2), (2, 0), (2, 1)}),
                       ('UNORDERED', {(0, 0), (0, 1), (0, 2), (1, 1), (1, 2), (2, 2)}),
                       ('UNORDERED_NOREPL', {(0, 1), (0, 2), (1, 2)})):
        got = {(i, j) for i in range(3) for j in range(3) if refmodel.index_predicate(ctype, [i, j])}
        assert got == exp, (ctype, got)

    cch = THEORY_CONN['cch'][0]
    sel = {a['assign']['C1']: a['nodes'] for a in refmodel.selection_architectures(THEORY_CONN)}
    ex_yes, sets_yes = refmodel.connection_sets(THEORY_CONN, cch, sel['o1'])
    ex_no, sets_no = refmodel.connection_sets(THEORY_CONN, cch, sel['o2'])
    assert ex_yes and ex_no
    assert _conn_rows(sets_yes) == THEORY_CONN_YES, _conn_rows(sets_yes)
    assert _conn_rows(sets_no) == THEORY_CONN_NO, _conn_rows(sets_no)
    assert len(refmodel.architectures(THEORY_CONN)) == 8
    return True


if __name__ == '__main__':
    run()
    from vf import enumerate as en
    en.selftest()
    print('selftest ok')
    sys.exit(0)
