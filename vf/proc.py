"""
Processor-level oracles shared by C01, C03, C04, C07, C14 (E1): one decode table per
(spec, encoder); each property applies its own laws to it.
"""
import itertools
import math
import numpy as np

from vf import refmodel, sweep, observe, enumerate as en
from vf.props import c01 as _c01


def active_reference(spec):
    """Admissible selection architectures: list of (nodes, assign)."""
    return [(a['nodes'], a['assign']) for a in refmodel.selection_architectures(spec) if a['admissible']]


def var_owner(t, dv):
    """('sel', cid) | ('conn', kid) | ('dv', name) for a DesVar of the processor."""
    from adsg_core.graph.adsg_nodes import SelectionChoiceNode, ConnectionChoiceNode, DesignVariableNode
    node = dv.node
    name = t.b.name(node)
    if isinstance(node, SelectionChoiceNode):
        return 'sel', name
    if isinstance(node, ConnectionChoiceNode):
        return 'conn', name
    return 'dv', name


def canonical_inactive(dv):
    return 0 if dv.is_discrete else (dv.bounds[0]+dv.bounds[1])/2


def in_range(dv, v):
    if dv.is_discrete:
        return float(v) == int(v) and 0 <= int(v) < dv.n_opts
    return dv.bounds[0] <= v <= dv.bounds[1]


def owner_exists(spec, owner, nodes):
    kind, name = owner
    if kind == 'sel':
        origin = {c: o for c, o, _ in spec.get('choices', [])}[name]
        return origin in nodes
    if kind == 'conn':
        for kid, srcs, tgts, excl in spec.get('cch', []):
            if kid == name:
                return any(s in nodes for s in srcs)
        return False
    return name in nodes


# ---------------------------------------------------------------------------------------------
# C03
# ---------------------------------------------------------------------------------------------

def check_c03(spec, enc, t, res, viol):
    if t.build_error or t.refused or t.skipped_too_large:
        if t.skipped_too_large:
            res.setdefault('caps', {})['skipped_too_large'] = 1
        return
    feats = res['features']
    by_ximp = {}
    origin = {c: o for c, o, _ in spec.get('choices', [])}
    for row in t.rows:
        res['evals'] += 1
        if row['exc'] is not None:
            continue  # C01's business
        x_imp = row['x_imp']
        # within the declared ranges
        for dv, v in zip(t.des_vars, x_imp):
            if not in_range(dv, v):
                viol('corrected-out-of-range', dict(x=row['x'], x_imp=x_imp, var=dv.name), enc)
                return
        # fixed point (checked twice: caches may flip)
        for rep in (1, 2):
            res['trans'] += 1
            r2 = sweep.decode_row(t, list(x_imp), with_dv_key=True)
            if r2['exc'] is not None:
                viol('redecode-raised', dict(x=row['x'], x_imp=x_imp, exc=r2['exc']), enc)
                return
            if r2['x_imp'] != x_imp or r2['act'] != row['act'] or r2['key'] != row['key']:
                viol('not-a-fixed-point', dict(x=row['x'], x_imp=x_imp, again=r2['x_imp'], act=row['act'],
                                               act_again=r2['act'], same_arch=r2['key'] == row['key'], rep=rep), enc)
                return
        if tuple(row['x']) != tuple(x_imp):
            feats['corrected_vector'] = feats.get('corrected_vector', 0) + 1
        # the vector describes the instance
        edges = set(row['key'][1])
        dvals = dict(row['dv_values'])
        for dv, v, a in zip(t.des_vars, x_imp, row['act']):
            kind, name = var_owner(t, dv)
            if not a:
                continue
            if kind == 'sel':
                opt = t.b.name(dv.options[int(v)])
                if (origin[name], opt) not in edges:
                    viol('selected-option-not-wired', dict(x=row['x'], x_imp=x_imp, var=dv.name, option=opt), enc)
                    return
                feats['sel_var_checked'] = feats.get('sel_var_checked', 0) + 1
            elif kind == 'dv':
                if name not in dvals or not _same_value(dvals[name], v):
                    viol('dv-node-value-differs', dict(x=row['x'], x_imp=x_imp, var=dv.name, stored=dvals.get(name)), enc)
                    return
                feats['dv_var_checked'] = feats.get('dv_var_checked', 0) + 1
        # injectivity bookkeeping
        prev = by_ximp.setdefault(x_imp, (row['key'], row['act']))
        if prev[0] != row['key']:
            viol('same-vector-different-architecture', dict(x=row['x'], x_imp=x_imp), enc)
            return
    # An architecture is the instance graph together with the options taken for its active choices: two
    # different corrected vectors may share the instance graph only if they differ in an active selection variable
    kinds = [var_owner(t, dv)[0] for dv in t.des_vars]
    by_key = {}
    for x_imp, (key, act) in by_ximp.items():
        ident = (key, tuple(v for v, a, k in zip(x_imp, act, kinds) if k == 'sel' and a))
        if ident in by_key and by_key[ident] != x_imp:
            viol('two-vectors-one-architecture', dict(x1=by_key[ident], x2=x_imp, key=key), enc)
            return
        by_key[ident] = x_imp
    if len(by_key) >= 2:
        feats['multi_arch'] = 1


def _same_value(a, b):
    try:
        return abs(float(a)-float(b)) < 1e-12
    except Exception:
        return False


# ---------------------------------------------------------------------------------------------
# C07
# ---------------------------------------------------------------------------------------------

def check_c07(spec, enc, t, res, viol, enum=None):
    if t.build_error or t.refused or t.skipped_too_large:
        return
    feats = res['features']
    owners = [var_owner(t, dv) for dv in t.des_vars]
    by_ximp_act = {}
    for row in t.rows:
        res['evals'] += 1
        if row['exc'] is not None:
            continue
        nodes = set(row['key'][0])
        for dv, own, v, a in zip(t.des_vars, owners, row['x_imp'], row['act']):
            if a and not owner_exists(spec, own, nodes):
                viol('active-without-owner', dict(x=row['x'], x_imp=row['x_imp'], var=dv.name), enc)
                return
            if not a:
                feats['inactive_seen'] = feats.get('inactive_seen', 0) + 1
                if not _same_value(v, canonical_inactive(dv)):
                    viol('inactive-not-canonical', dict(x=row['x'], x_imp=row['x_imp'], var=dv.name, value=v), enc)
                    return
                if not dv.conditionally_active:
                    viol('unconditional-variable-inactive', dict(x=row['x'], x_imp=row['x_imp'], var=dv.name), enc)
                    return
        # create=False path
        res['trans'] += 1
        r0 = sweep.decode_row(t, list(row['x']), create=False)
        if r0['exc'] is not None:
            viol('create-false-raised', dict(x=row['x'], exc=r0['exc']), enc)
            return
        if r0['x_imp'] != row['x_imp'] or r0['act'] != row['act']:
            viol('create-flag-changes-result', dict(x=row['x'], with_graph=(row['x_imp'], row['act']),
                                                     without=(r0['x_imp'], r0['act'])), enc)
            return
        prev = by_ximp_act.setdefault(row['x_imp'], row['act'])
        if prev != row['act']:
            viol('activeness-depends-on-raw-vector', dict(x=row['x'], x_imp=row['x_imp'], act=row['act'], other=prev), enc)
            return
    if enum is not None and enum.get('rows') is not None:
        feats['enum_rows'] = feats.get('enum_rows', 0) + len(enum['rows'])
        for r, act in zip(enum['rows'], enum['act']):
            res['evals'] += 1
            for dv, v, a in zip(t.des_vars, r, act):
                if not a and not dv.conditionally_active:
                    viol('unconditional-variable-inactive-in-enumeration', dict(row=r, var=dv.name), enc)
                    return
                if not a and dv.is_discrete and not _same_value(v, canonical_inactive(dv)):
                    viol('enumeration-inactive-not-canonical', dict(row=r, var=dv.name), enc)
                    return
            key_r = tuple(x for x, dv in zip(r, t.des_vars) if dv.is_discrete)
            # the same design through decode
            full = [x if dv.is_discrete else dv.bounds[0] for x, dv in zip(r, t.des_vars)]
            rr = sweep.decode_row(t, full)
            if rr['exc'] is None:
                da = tuple(a for a, dv in zip(rr['act'], t.des_vars))
                if tuple(x for x, dv in zip(rr['x_imp'], t.des_vars) if dv.is_discrete) == key_r and da != tuple(act):
                    viol('enumeration-activeness-differs-from-decode', dict(row=r, listed=act, decoded=rr['act']), enc)
                    return


# ---------------------------------------------------------------------------------------------
# C04
# ---------------------------------------------------------------------------------------------

def check_c04(spec, t, res, viol, A_dv):
    """COMPLETE encoder only.  A_dv: reference architecture keys including discrete DV values."""
    enc = 'COMPLETE'
    if t.build_error or t.refused or t.skipped_too_large:
        return
    feats = res['features']
    gp = t.gp
    try:
        enum = sweep.enum_table(gp)
    except Exception as e:
        viol('enumeration-raised', dict(exc=(type(e).__name__, str(e)[:200])), enc)
        return None
    rows = enum['rows']
    if rows is None:
        viol('enumeration-unavailable', {}, enc)
        return enum
    disc = [i for i, dv in enumerate(t.des_vars) if dv.is_discrete]
    res['evals'] += len(rows)
    # rows pairwise distinct (on the discrete part)
    drows = [tuple(r[i] for i in disc) for r in rows]
    if len(set(drows)) != len(drows):
        viol('duplicate-rows', dict(n=len(drows), distinct=len(set(drows))), enc)
    keys = {}
    for r, act, dr in zip(rows, enum['act'], drows):
        full = [x if dv.is_discrete else x for x, dv in zip(r, t.des_vars)]
        res['trans'] += 1
        rr = sweep.decode_row(t, full, with_dv_key=True)
        if rr['exc'] is not None:
            viol('row-decode-raised', dict(row=r, exc=rr['exc']), enc)
            return enum
        if tuple(rr['x_imp'][i] for i in disc) != dr:
            viol('row-not-a-fixed-point', dict(row=r, decoded=rr['x_imp']), enc)
            return enum
        if tuple(rr['act']) != tuple(act):
            viol('row-activeness-differs', dict(row=r, listed=act, decoded=rr['act']), enc)
            return enum
        k = (_disc_key(spec, rr['key']), _assign_from_vector(t, rr['x_imp'], rr['act']))
        if k in keys:
            viol('two-rows-one-architecture', dict(row1=keys[k], row2=r), enc)
            return enum
        keys[k] = r
    # Completeness is judged on the coarsest reading of "architecture" (node set, connection edges, discrete
    # design-variable values): whatever identity one prefers, a missing node set is a missing architecture.
    # (Uniqueness above is judged on the finest reading: same graph AND same options taken.)
    coarse = lambda k: (k[0], k[2], k[3])
    got = {coarse(k[0]) for k in keys}
    ref = {coarse(refmodel.arch_key(a, with_dv=True)) for a in refmodel.architectures(spec, with_dv=True)}
    if got != ref:
        viol('enumeration-differs-from-reference',
             dict(missing=sorted(ref-got)[:3], extra=sorted(got-ref)[:3], n_ref=len(ref), n_rows=len(rows)), enc)
    if enum['n_valid'] != len(rows):
        viol('n-valid-differs-from-rows', dict(n_valid=enum['n_valid'], n_rows=len(rows)), enc)
    n_space = 1
    for dv in t.des_vars:
        if dv.is_discrete:
            n_space *= dv.n_opts
    if enum['n_space'] != n_space:
        viol('declared-size-wrong', dict(got=enum['n_space'], expected=n_space), enc)
    if len(rows) > 0 and abs(enum['imp_ratio'] - n_space/len(rows)) > 1e-9:
        viol('imputation-ratio-wrong', dict(got=enum['imp_ratio'], expected=n_space/len(rows)), enc)
    try:
        stats = gp.get_statistics()
        tds = stats.loc['total-design-space']
        if int(tds['n_valid']) != enum['n_valid'] or int(tds['n_declared']) != enum['n_space']:
            viol('statistics-differ', dict(n_valid=int(tds['n_valid']), n_declared=int(tds['n_declared']),
                                           expected=(enum['n_valid'], enum['n_space'])), enc)
    except Exception as e:
        viol('statistics-raised', dict(exc=(type(e).__name__, str(e)[:200])), enc)
    if len(rows) >= 2:
        feats['multi_row'] = 1
    if len(rows) < n_space:
        feats['hierarchical'] = 1
    return enum


def _assign_from_vector(t, x_imp, act):
    out = []
    for dv, v, a in zip(t.des_vars, x_imp, act):
        kind, name = var_owner(t, dv)
        if kind == 'sel' and a:
            out.append((name, t.b.name(dv.options[int(v)])))
    return tuple(sorted(out))


def _disc_key(spec, key):
    """architecture key with only the discrete design-variable values (continuous ones dropped)."""
    dv = spec.get('dv', {})
    vals = tuple(sorted((n, int(v)) for n, v in key[3] if 'options' in dv.get(n, {})
                        and not refmodel._is_linked_follower(spec, n)))
    return key[0], key[1], key[2], vals


def reference_dv_keys(spec):
    return {refmodel.arch_key(a, with_dv=True) for a in refmodel.architectures(spec, with_dv=True)}
