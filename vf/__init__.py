"""Bounded model checking machinery for adsg-core (see /verif/DESIGN.md)."""
