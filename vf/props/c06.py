"""
C06 -- incompatibility constraints are enforced and never over-prune.

E2 on every canonical selection spec with >= 1 incompatibility pair (all placements the grammar can
produce: start, option, derived, shared nodes): on every state no confirmed incompatible pair in a
state reported feasible; taking an option whose closure contains a pair never gives a feasible state
(leaf law of C02); no over-pruning: every admissible architecture keeps its options offered in every
state it extends, and is a feasible leaf; graph reported infeasible iff the reference set is empty.
Processor level (E1, both encoders): construction refused iff A(spec) is empty; no decode, corrected
vector or valid design lands in an inadmissible architecture.
"""
from vf import refmodel, enumerate as en, build as vbuild, sweep
from vf.props import c02, c01

LEVEL = 'model_checking'
RULE = ('case = canonical selection spec with >= 1 incompatibility pair; complete derivation state graph + complete '
        'decode tables of both encoders; non-trivial = spec in which an incompatibility actually removes an '
        'architecture (reference has an inadmissible architecture) and at least one admissible one remains')
ASSUMPTIONS = c02.ASSUMPTIONS + ['"an option that would necessarily confirm two incompatible nodes is never offered in a feasible '
                                 'result" is checked in the form: taking it never yields a state/instance reported feasible']
CHUNK = 100
REQUIRED_FEATURES = {'*': ['pair_on_option', 'pair_on_derived', 'pair_on_start', 'prunes', 'all_infeasible']}
MAX_STATES = 5000


def scope_text(tier):
    return ('SEL-q' if tier == 'quick' else 'SEL-t + (P<=3,K<=2,I<=3)') + \
        ' restricted to specs with >= 1 incompatibility pair + INC family (256 specs: nested choice below an option, all edge subsets, 4 pairs); all orders; both encoders at processor level'


def cases(tier, seed):
    seen = set()
    for spec in en.scope_specs('SEL-q' if tier == 'quick' else 'SEL-t'):
        if spec['incompat']:
            seen.add(en.spec_id(spec))
            yield dict(spec=spec)
    from vf import families
    for spec in families.unr(tier):      # incompatibility with a node that cannot be derived at all
        yield dict(spec=spec)
    for spec in families.inc2(tier):     # one node in two incompatibility constraints, derived partners
        yield dict(spec=spec)
    for spec in families.inc3(tier):     # per-option removal influences on a shared derived node
        yield dict(spec=spec)
    for spec in families.inc(tier):      # necessary derivers below an option with a nested choice
        yield dict(spec=spec)
    if tier != 'quick':
        for spec in en.sel_specs(dict(P=3, K=2, M=2, E=1, I=3, S=1)):
            if len(spec['incompat']) >= 2 and en.spec_id(spec) not in seen:
                yield dict(spec=spec)


def worker_init(tier, seed):
    from vf import env
    env.install_inline_limiter()


def run_case(case):
    spec = case['spec']
    res = dict(evals=0, states=0, trans=0, nontrivial=False, key=en.spec_id(spec), features={}, violations=[])
    feats = res['features']

    def viol(kind, detail, enc=None):
        c = dict(spec=spec) if enc is None else dict(spec=spec, enc=enc)
        res['violations'].append(dict(kind=kind, case=c, detail=detail))

    opts = {o for _, _, os_ in spec['choices'] for o in os_}
    derived = {v for _, v in spec['edges']}
    for u, v in spec['incompat']:
        for x in (u, v):
            if x in spec['starts']:
                feats['pair_on_start'] = 1
            if x in opts:
                feats['pair_on_option'] = 1
            if x in derived:
                feats['pair_on_derived'] = 1
    archs = refmodel.selection_architectures(spec)
    adm = [a for a in archs if a['admissible']]
    if len(adm) < len(archs):
        feats['prunes'] = 1
    if not adm:
        feats['all_infeasible'] = 1
    res['nontrivial'] = bool(adm) and len(adm) < len(archs)

    try:
        b = vbuild.build(spec)
    except Exception as e:
        viol('build-raised', dict(exc=(type(e).__name__, str(e)[:200])))
        return res
    # graph level
    if bool(b.dsg.feasible) != bool(adm) and not b.dsg.get_ordered_next_choice_nodes():
        viol('initial-feasibility-wrong', dict(feasible=bool(b.dsg.feasible), n_ref=len(adm)))
    c02.analyse(spec, b, res, lambda k, d: viol(k, d), check_pruning=True)

    # processor level
    A = refmodel.arch_keys(spec)
    for enc in ('COMPLETE', 'FAST'):
        t = sweep.decode_table(spec, enc)
        c01.check_table(spec, enc, t, A, res, lambda k, d, e: viol(k, d, e))
        if t.gp is not None and enc == 'COMPLETE' and A:
            try:
                enum = sweep.enum_table(t.gp)
            except Exception:
                enum = None
            if enum and enum['rows'] is not None:
                for r in enum['rows']:
                    rr = sweep.decode_row(t, list(r))
                    res['evals'] += 1
                    if rr['exc'] is None and rr['key'] not in A:
                        viol('valid-design-is-inadmissible', dict(row=r, key=rr['key']), enc)
                        break
    res['sample'] = dict(spec=spec, n_ref=len(adm), n_inadmissible=len(archs)-len(adm))
    return res
