"""
C07 -- activeness and imputation follow one contract on every path.

E1 (graph level): every spec of the scope x both encoders x every raw vector: active => owner exists,
inactive => canonical value, unconditional variables always active, create=True/False agree,
enumeration rows agree with decoding.  Assignment-manager level (every registered connection encoder): the settings of
vf.props.c10's alphabet that have conditionally existing connectors on both sides are run through c10's manager
exploration and its C07 laws (inactive => canonical, unconditional variable always active, activeness independent of the raw
vector that was corrected, listed activeness == decoded activeness) are reported here.
"""
from vf import sweep, enumerate as en, families, proc

LEVEL = 'model_checking'
RULE = ('case = canonical spec x encoder, every raw vector decoded with and without materialising the instance, every '
        'enumeration row re-decoded; non-trivial = spec with a conditionally active variable that is inactive in some '
        'decode; distinct = spec id')
ASSUMPTIONS = ['owner existence is read from the decoded instance graph (choice origin / a source connector / the dv node)']
CHUNK = 10
REQUIRED_FEATURES = {'*': ['inactive_seen', 'enum_rows', 'manager_level']}
ENCODERS = ['COMPLETE', 'FAST']


def scope_text(tier):
    return ('SEL-q + CC-1q + CON-1q + DV-1q' if tier == 'quick' else 'SEL-t + CC-1t + CON-1t + DV-1t') + \
        '; encoders COMPLETE and FAST; full declared space; create flag both; + assignment-manager level: 1x2, 2x1, 2x2 ' \
        'connector settings with conditional connectors on both sides x every registered connection encoder'


def cases(tier, seed):
    for st in manager_cases(tier):       # first: the heaviest cases
        yield dict(kind='manager', st=st)
    for spec in en.scope_specs('SEL-q' if tier == 'quick' else 'SEL-t'):
        yield dict(spec=spec)
    for fam in (families.cc1, families.con1, families.con3, families.dv1, families.cyc, families.diamond, families.unr):
        for spec in fam(tier):
            yield dict(spec=spec)


def pairs22_none(tier, T, pairs):
    import itertools
    return list(itertools.combinations_with_replacement(T[:4], 2))[:6]


def manager_cases(tier):
    import itertools
    from vf.props import c10
    T = c10.T5 if tier == 'quick' else c10.T6
    pairs = list(itertools.combinations_with_replacement(T, 2))
    for s in T:
        for p in pairs:
            yield dict(src=[s], tgt=list(p), ex='both', imputers='default')
            yield dict(src=list(p), tgt=[s], ex='both', imputers='default')
    for s in pairs22_none(tier, T, pairs):      # single existence pattern: imputation onto designs with inactive variables
        for t in pairs22_none(tier, T, pairs):
            yield dict(src=list(s), tgt=list(t), ex='none', imputers='all')
    pairs22 = pairs if tier != 'quick' else list(itertools.combinations_with_replacement(T[:3], 2))
    for s in pairs22:
        for t in pairs22:
            yield dict(src=list(s), tgt=list(t), ex='both', imputers='default')


def worker_init(tier, seed):
    from vf import env
    from vf.props import c10
    c10.worker_init(tier, seed)
    env.install_inline_limiter()


def run_manager_case(case):
    from vf.props import c10
    r = c10.run_case(case['st'])
    r['violations'] = [dict(v, case=dict(kind='manager', st=case['st'], encoder=v['case'].get('encoder'), pattern=v['case'].get('pattern')))
                       for v in r['violations'] if v['kind'].startswith('C07-')]
    r['features'] = dict(manager_level=1)
    r['key'] = 'mgr:' + repr(case['st'])
    return r


def run_case(case):
    if case.get('kind') == 'manager':
        return run_manager_case(case)
    spec = case['spec']
    res = dict(evals=0, states=1, trans=0, nontrivial=False, key=en.spec_id(spec), features={}, violations=[])

    def viol(kind, detail, enc):
        res['violations'].append(dict(kind=kind, case=dict(spec=spec, enc=enc), detail=detail))

    for enc in (case.get('encs') or ENCODERS):
        t = sweep.decode_table(spec, enc)
        enum = None
        if enc == 'COMPLETE' and t.gp is not None and not t.skipped_too_large:
            try:
                enum = sweep.enum_table(t.gp)
            except Exception:
                enum = None  # C04 reports enumeration failures
        proc.check_c07(spec, enc, t, res, viol, enum=enum)
    res['nontrivial'] = res['features'].get('inactive_seen', 0) > 0
    res['sample'] = dict(spec=spec)
    return res
