"""
C07 -- activeness and imputation follow one contract on every path.

E1 (graph level): every spec of the scope x both encoders x every raw vector: active => owner exists,
inactive => canonical value, unconditional variables always active, create=True/False agree,
enumeration rows agree with decoding.  The assignment-manager level (every registered connection
encoder) is explored by vf.props.c10's alphabet and reported there under the C07 laws (see c07m).
"""
from vf import sweep, enumerate as en, families, proc

LEVEL = 'model_checking'
RULE = ('case = canonical spec x encoder, every raw vector decoded with and without materialising the instance, every '
        'enumeration row re-decoded; non-trivial = spec with a conditionally active variable that is inactive in some '
        'decode; distinct = spec id')
ASSUMPTIONS = ['owner existence is read from the decoded instance graph (choice origin / a source connector / the dv node)']
CHUNK = 100
REQUIRED_FEATURES = {'*': ['inactive_seen', 'enum_rows']}
ENCODERS = ['COMPLETE', 'FAST']


def scope_text(tier):
    return ('SEL-q + CC-1q + CON-1q + DV-1q' if tier == 'quick' else 'SEL-t + CC-1t + CON-1t + DV-1t') + \
        '; encoders COMPLETE and FAST; full declared space; create flag both'


def cases(tier, seed):
    for spec in en.scope_specs('SEL-q' if tier == 'quick' else 'SEL-t'):
        yield dict(spec=spec)
    for fam in (families.cc1, families.con1, families.con3, families.dv1, families.cyc, families.diamond, families.unr):
        for spec in fam(tier):
            yield dict(spec=spec)


def worker_init(tier, seed):
    from vf import env
    env.install_inline_limiter()


def run_case(case):
    spec = case['spec']
    res = dict(evals=0, states=1, trans=0, nontrivial=False, key=en.spec_id(spec), features={}, violations=[])

    def viol(kind, detail, enc):
        res['violations'].append(dict(kind=kind, case=dict(spec=spec, enc=enc), detail=detail))

    for enc in (case.get('encs') or ENCODERS):
        t = sweep.decode_table(spec, enc)
        enum = None
        if enc == 'COMPLETE' and t.gp is not None and not t.skipped_too_large:
            try:
                enum = sweep.enum_table(t.gp)
            except Exception:
                enum = None  # C04 reports enumeration failures
        proc.check_c07(spec, enc, t, res, viol, enum=enum)
    res['nontrivial'] = res['features'].get('inactive_seen', 0) > 0
    res['sample'] = dict(spec=spec)
    return res
