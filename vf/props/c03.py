"""
C03 -- the corrected design vector is a canonical fixed point describing the instance.

E1: every spec of the scope x both encoders x every raw vector of the declared space:
range, fixed point (re-decoded twice), vector <-> instance agreement, injectivity.
"""
from vf import sweep, enumerate as en, families, proc

LEVEL = 'model_checking'
RULE = ('case = canonical spec x encoder, every raw vector of the declared space decoded and its corrected vector '
        're-decoded twice; non-trivial = spec with >= 2 distinct corrected vectors; distinct = spec id')
ASSUMPTIONS = ['connection variables are checked through injectivity/fixed point here; the matrix-level decoding laws are C10',
               'declared spaces > 4096 vectors are skipped and counted']
CHUNK = 100
REQUIRED_FEATURES = {'*': ['multi_arch', 'corrected_vector', 'sel_var_checked', 'dv_var_checked']}
ENCODERS = ['COMPLETE', 'FAST']


def scope_text(tier):
    return ('SEL-q + CC-1q + CON-1q + DV-1q' if tier == 'quick' else 'SEL-t + CC-1t + CON-1t + DV-1t') + \
        '; encoders COMPLETE and FAST; full declared space'


def cases(tier, seed):
    for spec in en.scope_specs('SEL-q' if tier == 'quick' else 'SEL-t'):
        yield dict(spec=spec)
    for fam in (families.cc1, families.con1, families.con3, families.dv1, families.cyc, families.diamond, families.unr):
        for spec in fam(tier):
            yield dict(spec=spec)


def worker_init(tier, seed):
    from vf import env
    env.install_inline_limiter()


def run_case(case):
    spec = case['spec']
    res = dict(evals=0, states=1, trans=0, nontrivial=False, key=en.spec_id(spec), features={}, violations=[])

    def viol(kind, detail, enc):
        res['violations'].append(dict(kind=kind, case=dict(spec=spec, enc=enc), detail=detail))

    for enc in (case.get('encs') or ENCODERS):
        t = sweep.decode_table(spec, enc, with_dv_key=True)
        proc.check_c03(spec, enc, t, res, viol)
    res['nontrivial'] = bool(res['features'].get('multi_arch'))
    res['sample'] = dict(spec=spec)
    return res
