"""
C08 -- design space graphs behave as persistent values.

E3 on a FAMILY of live DSG objects: starting from the initialised graph, every operation that derives a new graph from ANY live
object (copy, apply a selection choice with every offered option, apply a connection choice with every valid set, constrain
choices on a copy, store a design-variable / metric value on a copy, confirmed graph, decode any vector through a processor built on the initial graph) is applied in every order
up to the depth bound; every live object's complete observation (nodes, edges, feasible, final, next choices, option lists,
valid connection sets, stored values, constraints, hash) is recorded at creation and re-read after EVERY later operation.
"""
import itertools
from vf import refmodel, sweep, enumerate as en, families, env, build as vbuild, observe, proc
from adsg_core.graph.adsg_nodes import SelectionChoiceNode, ConnectionChoiceNode
from adsg_core.graph.choice_constraints import ChoiceConstraintType

LEVEL = 'model_checking'
RULE = ('case = one subject spec: all sequences of derive/decode operations (parent object, operation) up to depth 3 (thorough 4); '
        'states = operation sequences executed, transitions = observations re-read; non-trivial = subject with >= 2 selection '
        'choices or a connection choice')
ASSUMPTIONS = ['the raw attributes of node objects (e.g. deg_list of a grouping node) are shared between all graphs by design and are '
               'not part of what a graph object reports; degree constraints are observed through the valid connection sets and feasibility',
               'get_taken_single_selection_choices is documented "last call" state and not part of the observation']
CHUNK = 1
REQUIRED_FEATURES = {'*': ['op_copy', 'op_sel', 'op_conn', 'op_constrain', 'op_confirmed', 'op_decode', 'op_copyset', 'grouping_subject']}
_TIER = ['quick']


def scope_text(tier):
    return '%d subject specs x all operation sequences of depth <= %d over the live family' % (len(subjects(tier)), 3 if tier == 'quick' else 4)


def subjects(tier):
    S = families.skel
    out = [
        ('nested', S('nested')),
        ('indep', S('indep')),
        ('incompat', dict(starts=['s0'], nodes=['n1', 'n2', 'n3'], edges=[['n1', 'n3']],
                          choices=[['C0', 's0', ['n1', 'n2']], ['C1', 's0', ['n3', 'n2']]], incompat=[['n1', 'n2']])),
        ('conn_grp', families._conn_spec('one', [('1', False, 'a'), ('1', False, 'o1')], [('0..*', False, 'a')], grp='src')),
        ('conn_grp2', families._conn_spec('one', [('0..1', False, 'a'), ('1', False, 'o1')], [('1', False, 'o1'), ('0..1', False, 'a')], grp='src')),
        ('conn_excl', families._conn_spec('one', [('0..1', False, 'a'), ('0..*', False, 'o1')], [('0..1', False, 'a'), ('0..*', False, 'o2')],
                                          excl=[('S1', 'T2')])),
        ('cc_perm', dict(starts=['a'], nodes=['x0', 'x1', 'y0', 'y1'], edges=[], incompat=[],
                         choices=[['X0', 'a', ['x0', 'x1']], ['X1', 'a', ['y0', 'y1']]], cc=[['PERMUTATION', ['X0', 'X1']]])),
    ]
    out.append(('three_choices', dict(starts=['a'], nodes=['x0', 'x1', 'y0', 'y1', 'z0', 'z1'], edges=[], incompat=[],
                                      choices=[['X0', 'a', ['x0', 'x1']], ['X1', 'a', ['y0', 'y1']], ['X2', 'a', ['z0', 'z1']]])))
    out.append(('four_choices_constrained', dict(starts=['a'], nodes=['x0', 'x1', 'y0', 'y1', 'z0', 'z1', 'w0', 'w1'], edges=[], incompat=[],
                                                 choices=[['X0', 'a', ['x0', 'x1']], ['X1', 'a', ['y0', 'y1']], ['X2', 'a', ['z0', 'z1']],
                                                          ['X3', 'a', ['w0', 'w1']]], cc=[['LINKED', ['X0', 'X1']]])))
    sp = S('one')
    sp['dv'] = {'D1': dict(anchor='o1', options=2), 'D2': dict(anchor='a', bounds=[0.0, 1.0])}
    sp['met'] = {'M1': dict(anchor='a', dir=-1, ref=None, type=None)}
    out.append(('dv', sp))
    if tier != 'quick':
        out.append(('mutex', S('mutex')))
        out.append(('three', S('three')))
    return out


def cases(tier, seed):
    for name, spec in subjects(tier):
        yield dict(name=name, spec=spec)


def worker_init(tier, seed):
    _TIER[0] = tier
    env.install_inline_limiter()


def obs_of(b, g):
    o = observe.graph_obs(b, g)
    o.pop('degrees', None)
    try:
        o['hash'] = hash(g)
    except Exception as e:
        o['hash'] = ('EXC', type(e).__name__)
    return o


def _copy_set(g, kind, node, value):
    g2 = g.copy()
    if kind == 'dv':
        g2.set_des_var_value(node, value)
    else:
        g2.set_metric_value(node, value)
    return g2


def run_case(case):
    spec = case['spec']
    res = dict(evals=0, states=0, trans=0, nontrivial=False, key=case['name'], features={}, violations=[])
    feats = res['features']
    depth = 3 if (_TIER[0] == 'quick' or case['name'] == 'four_choices_constrained') else 4
    if spec.get('grp'):
        feats['grouping_subject'] = 1
    res['nontrivial'] = len(spec.get('choices', [])) >= 2 or bool(spec.get('cch'))

    b = vbuild.build(spec, constrain=bool(spec.get('cc')) and case['name'].endswith('_constrained'))
    g0 = b.dsg
    # the processors decode from an equal but separate initial graph object? No: from g0 itself (it must not change)
    procs = {}

    def processor(enc):
        if enc not in procs:
            procs[enc] = sweep.make_processor(g0, enc)
        return procs[enc]

    def ops_for(g, idx):
        """operations applicable to live object g: list of (label, thunk)"""
        out = [(('copy',), lambda: g.copy()), (('confirmed',), lambda: g.get_confirmed_graph())]
        try:
            nxt = list(g.get_ordered_next_choice_nodes())
        except Exception:
            nxt = []
        for c in nxt:
            if isinstance(c, SelectionChoiceNode):
                for o in g.get_option_nodes(c):
                    out.append((('sel', b.name(c), b.name(o)), (lambda c=c, o=o: g.get_for_apply_selection_choice(c, o))))
        if not any(isinstance(n, SelectionChoiceNode) for n in g.graph.nodes):
            for c in [n for n in g.graph.nodes if isinstance(n, ConnectionChoiceNode)]:
                try:
                    sets = list(c.iter_conn_edges(g))
                except Exception:
                    sets = []
                for es in sets[:4]:
                    out.append((('conn', b.name(c), tuple(sorted((b.name(s), b.name(t)) for s, t in es))),
                                (lambda c=c, es=es: g.get_for_apply_connection_choice(c, es))))
        # constrain choices on a copy (only where it is allowed: unconstrained selection choices present)
        sel = sorted([n for n in g.graph.nodes if isinstance(n, SelectionChoiceNode)], key=b.name)
        if g.get_choice_constraints():
            # a graph that ALREADY holds a constraint: a second one over two still unconstrained choices, on a copy
            free = [c for c in sel if g.is_constrained_choice(c) is None]
            if len(free) >= 2 and len({len(g.get_option_nodes(c)) for c in free[:2]}) == 1:
                out.append((('constrain', 'second', 'LINKED'),
                            (lambda free=free: g.copy().constrain_choices(ChoiceConstraintType.LINKED, free[:2]))))
        if len(sel) >= 2 and not g.get_choice_constraints() and \
                len({len(g.get_option_nodes(c)) for c in sel[:2]}) == 1:
            for ct in ('LINKED', 'PERMUTATION'):
                out.append((('constrain', ct), (lambda ct=ct: g.copy().constrain_choices(ChoiceConstraintType[ct], sel[:2]))))
            # over-constraining (more choices than options): choices are left without any option
            if len(sel) >= 3 and len({len(g.get_option_nodes(c)) for c in sel[:3]}) == 1:
                for ct in ('UNORDERED_NOREPL', 'PERMUTATION'):
                    out.append((('constrain3', ct), (lambda ct=ct: g.copy().constrain_choices(ChoiceConstraintType[ct], sel[:3]))))
        # store a value on a COPY (derive op): the copy's stored values must be its own, whatever the source already holds
        for n in sorted(g.des_var_nodes, key=b.name)[:2]:
            vals = [0, 1] if n.is_discrete else [float(n.bounds[0]), float(n.bounds[1])]
            for v in vals:
                if g.des_var_values.get(n) == v:
                    continue
                out.append((('copyset', 'dv', b.name(n), v), (lambda n=n, v=v: _copy_set(g, 'dv', n, v))))
        for n in sorted(g.metric_nodes, key=b.name)[:1]:
            for v in (1.0, 2.0):
                if g.metric_values.get(n) == v:
                    continue
                out.append((('copyset', 'met', b.name(n), v), (lambda n=n, v=v: _copy_set(g, 'met', n, v))))
        if idx == 0:
            for enc in ('COMPLETE', 'FAST'):
                try:
                    gp = processor(enc)
                except Exception:
                    continue
                space = list(itertools.product(*[sweep.dv_values(dv) for dv in gp.des_vars]))
                if len(space) > 3:
                    space = [space[0], space[len(space)//2], space[-1]]
                for x in space:
                    out.append((('decode', enc, tuple(x)), (lambda gp=gp, x=x: gp.get_graph(list(x))[0])))
        return out

    live = [g0]
    recorded = [obs_of(b, g0)]
    created_by = [('init',)]
    stop = [False]

    def viol(kind, detail):
        res['violations'].append(dict(kind=kind, case=dict(name=case['name'], spec=spec), detail=detail))
        stop[0] = True

    def recheck(path):
        for k, g in enumerate(live[:-1] if False else live):
            res['trans'] += 1
            cur = obs_of(b, g)
            if cur != recorded[k]:
                diff = sorted(key for key in cur if cur[key] != recorded[k].get(key))
                viol('existing-graph-changed', dict(object_created_by=created_by[k], changed_by=path[-1], path=path, fields=diff,
                                                     before={f: recorded[k].get(f) for f in diff[:2]},
                                                     after={f: cur[f] for f in diff[:2]}))
                return False
        return True

    def dfs(d, path):
        if d == depth or stop[0]:
            return
        for idx in range(len(live)):
            for label, thunk in ops_for(live[idx], idx):
                if stop[0]:
                    return
                feats['op_' + {'copy': 'copy', 'confirmed': 'confirmed', 'sel': 'sel', 'conn': 'conn', 'constrain': 'constrain', 'constrain3': 'constrain',
                               'decode': 'decode', 'copyset': 'copyset'}[label[0]]] = 1
                step = (idx, label)
                try:
                    new = thunk()
                except Exception as e:
                    # an operation may fail (e.g. constraint not applicable); it must still not change anything
                    new = None
                res['states'] += 1
                res['evals'] += 1
                if new is not None:
                    live.append(new)
                    recorded.append(obs_of(b, new))
                    created_by.append(step)
                if not recheck(path+[step]):
                    return
                if new is not None:
                    dfs(d+1, path+[step])
                    live.pop()
                    recorded.pop()
                    created_by.pop()

    dfs(0, [])
    res['sample'] = dict(name=case['name'], spec=spec, sequences=res['states'])
    return res
