"""
C04 -- the enumerated valid design vectors are exactly the architectures, one each (complete encoder).

E1: every spec of the scope, COMPLETE encoder: rows of get_all_discrete_x vs the reference set A(spec)
(both inclusions, bijectively), fixed point and activeness of every row, counts, ratio, statistics;
the same with every single selection/design-variable variable fixed to every value.
"""
from vf import sweep, enumerate as en, families, proc, refmodel

LEVEL = 'model_checking'
RULE = ('case = canonical spec (COMPLETE encoder) + each single-variable fixing; all rows of the enumeration are decoded; '
        'non-trivial = spec with >= 2 reference architectures; distinct = spec id')
ASSUMPTIONS = ['reference A(spec) incl. valid connection sets and discrete design-variable values (vf/refmodel.py)',
               'continuous design variables are compared on the discrete part of the vector only']
CHUNK = 100
REQUIRED_FEATURES = {'*': ['multi_row', 'hierarchical', 'fixed_variant', 'conn_choice', 'dv_node']}


def scope_text(tier):
    return ('SEL-q + CC-1q + CON-1q + DV-1q' if tier == 'quick' else 'SEL-t + CC-1t + CON-1t + DV-1t') + \
        '; COMPLETE encoder; unfixed + every (variable, value) single fixing'


def cases(tier, seed):
    for spec in en.scope_specs('SEL-q' if tier == 'quick' else 'SEL-t'):
        yield dict(spec=spec)
    for fam in (families.cc1, families.con1, families.con3, families.dv1, families.cyc, families.diamond, families.unr):
        for spec in fam(tier):
            yield dict(spec=spec)


def worker_init(tier, seed):
    from vf import env
    env.install_inline_limiter()


def run_case(case):
    spec = case['spec']
    res = dict(evals=0, states=1, trans=0, nontrivial=False, key=en.spec_id(spec), features={}, violations=[])
    feats = res['features']

    def viol(kind, detail, enc):
        res['violations'].append(dict(kind=kind, case=dict(spec=spec, enc=enc), detail=detail))

    A_dv = proc.reference_dv_keys(spec)
    if spec.get('cch'):
        feats['conn_choice'] = 1
    if spec.get('dv'):
        feats['dv_node'] = 1
    t = sweep.decode_table(spec, 'COMPLETE', space=[])  # no sweep over the declared space here: rows only
    t.rows = []
    if t.build_error or t.refused:
        if A_dv and t.refused:
            pass  # C01 reports refusals
        res['evals'] += 1
        res['sample'] = dict(spec=spec, refused=t.refused)
        return res
    enum = proc.check_c04(spec, t, res, viol, A_dv)
    res['nontrivial'] = len(A_dv) >= 2

    # the same laws with one variable fixed (subset law: rows = reference architectures compatible with the fixing)
    if enum and enum.get('rows') is not None and not res['violations']:
        rows0, act0 = enum['rows'], enum['act']
        gp = t.gp
        all_vars = list(gp.all_des_vars)
        for i, dv in enumerate(all_vars):
            kind, _ = proc.var_owner(t, dv)
            if kind == 'conn' or not dv.is_discrete:
                continue
            for val in range(dv.n_opts):
                feats['fixed_variant'] = feats.get('fixed_variant', 0) + 1
                try:
                    gp.fix_des_var(dv, val)
                    x, act = gp.get_all_discrete_x(with_fixed=True)
                    n_valid = gp.get_n_valid_designs(with_fixed=True)
                    got = sorted(tuple(int(v) if float(v) == int(v) else float(v) for v in r) for r in x)
                except Exception as e:
                    viol('fixed-enumeration-raised', dict(var=dv.name, value=val, exc=(type(e).__name__, str(e)[:200])), 'COMPLETE')
                    gp.free_des_var(dv)
                    break
                finally:
                    pass
                gp.free_des_var(dv)
                res['evals'] += 1
                drop = lambda r: tuple(v for j, v in enumerate(r) if j != i)
                allowed = {drop(r) for r, a in zip(rows0, act0) if (not a[i]) or r[i] == val}
                required = {drop(r) for r, a in zip(rows0, act0) if a[i] and r[i] == val}
                gs = set(got)
                if len(gs) != len(got) or not (required <= gs <= allowed):
                    viol('fixed-enumeration-differs', dict(var=dv.name, value=val, n_got=len(got),
                                                           missing=sorted(required-gs)[:3], extra=sorted(gs-allowed)[:3],
                                                           duplicates=len(got)-len(gs)), 'COMPLETE')
                    break
                if n_valid != len(got):
                    viol('fixed-n-valid-differs', dict(var=dv.name, value=val, n_valid=n_valid, n_rows=len(got)), 'COMPLETE')
                    break
    res['sample'] = dict(spec=spec, n_ref=len(A_dv))
    return res
