"""
C12 -- encoder selection always succeeds and disk caches are transparent.

E4 (environment answers) on EncoderSelector.get_best_assignment_manager:
  * the name run_timeout in the selector module is bound to a scripted limiter; scripts with 0 deviations, EVERY single
    deviation (call k answered with TimeoutError; MemoryError where the selector declares to handle it) and (thorough) every
    pair of deviations, plus the extreme scripts; candidate rejections (InvalidPatternEncoder / DetectedHighImpRatio) are
    injected at every candidate position the same way;
  * cache histories: cold, warm (second call), written by another process with another hash seed, matrix cache warm +
    selection cache cold, and the reverse, matrix cache first written by the enumeration of a single existence pattern;
  * oracle: a manager is returned, it satisfies the C10 laws (vf.props.c10.check_manager), <= 1 matrix in every pattern
    => no variables; result through any cache history == cold result;
  * cache keys: over ALL pairs of a large enumerated family of settings, equal key => equal canonical settings.
"""
import os
import sys
import json
import pickle
import shutil
import itertools
import subprocess
import numpy as np
from vf import refmodel, env
from vf.props import c09, c10

LEVEL = 'fault_enumeration'
RULE = ('case = one connector setting: all limiter scripts up to the deviation bound x 6 cache histories (each a full run of the '
        'real selector) | one shard of the cache-key family; non-trivial = setting with a pattern that has >= 2 valid matrices; '
        'distinct by construction')
ASSUMPTIONS = ['the scripted limiter runs the function inline or raises instead of it: wall-clock behaviour itself is C19',
               'library versions of the numeric stack cannot be varied offline: the installed stack (numpy 1.26 / pandas 3 / numba 0.6x) only',
               'if every candidate of a stage times out the selector may only fail with its explicit RuntimeError']
CHUNK = 1
REQUIRED_FEATURES = {'*': ['script_single_dev', 'cache_other_process', 'degenerate_one', 'degenerate_zero', 'key_family', 'partial_first', 'script_complement']}
_TIER = ['quick']


def scope_text(tier):
    return ('%s settings x limiter scripts (0, every single%s deviation, extremes incl. by-name ones, complements = only two candidates run for 3 settings) x 6 cache histories; cache keys over a family '
            'of ~10^5 settings' % (('~70', '') if tier == 'quick' else ('~400', ' and every pair of')))


def settings_list(tier):
    D = ['1', '0..1', '1..2', '0,2', '2', '0..*', '1..*']
    out = []
    for a in D:
        for b in D:
            out.append(dict(src=[(a, True)], tgt=[(b, True)], ex='none'))
    for s in ['1', '0..*', '1..*']:
        for p in itertools.combinations_with_replacement(['1', '0..1', '0..*'], 2):
            out.append(dict(src=[(s, False)], tgt=[(p[0], False), (p[1], False)], ex='none'))
            out.append(dict(src=[(p[0], False), (p[1], False)], tgt=[(s, False)], ex='tgtL' if s != '1' else 'none'))
    # pattern representatives, degenerate ones, existence patterns
    out += [
        dict(src=[('1', False)], tgt=[('0..1', False)]*3, ex='none'),                      # combining
        dict(src=[('0..*', False)]*2, tgt=[('0..*', False)]*2, ex='none'),                 # assigning
        dict(src=[('0..*', False)]*2, tgt=[('1', False)]*3, ex='none'),                    # partitioning
        dict(src=[('0..*', False)]*2, tgt=[('0..1', False)]*2, ex='src0'),                 # downselecting, conditional source
        dict(src=[('1', False)]*3, tgt=[('1', False)]*3, ex='none'),                       # permuting
        dict(src=[('2', True)], tgt=[('0..*', True)]*3, ex='none'),                        # unordered combining
        dict(src=[('1', False)], tgt=[('1', False)], ex='both'),                           # exactly one matrix / none
        dict(src=[('2', False)], tgt=[('1', False)], ex='none'),                           # zero matrices
        dict(src=[('1', False), ('1', False)], tgt=[('1', False)], ex='src0'),             # zero matrices in one pattern only
        dict(src=[('0..1', False), ('1..2', True)], tgt=[('0,2', True), ('0..*', True)], ex='both'),
        # complement scripts (only two candidates run) in the quick tier
        dict(src=[('0..*', True), ('1..2', True)], tgt=[('0..*', True), ('0,2', True)], ex='none', complements=1),
        dict(src=[('1..*', False), ('0..*', True)], tgt=[('0..*', False), ('0..1', False), ('1..*', True)], ex='none', complements=1),
        dict(src=[('0..*', False), ('0..1', False)], tgt=[('0..*', False), ('1', False)], ex='src0', complements=1),
    ]
    if tier != 'quick':
        T = c10.T5
        for s in itertools.combinations_with_replacement(T, 2):
            for t in itertools.combinations_with_replacement(T, 2):
                out.append(dict(src=list(s), tgt=list(t), ex='none'))
                out.append(dict(src=list(s), tgt=list(t), ex='both'))
    return out


def cases(tier, seed):
    for st in settings_list(tier):
        yield dict(st, kind='selector')
    n_shards = 16
    for i in range(n_shards):
        yield dict(kind='keys', shard=i, n_shards=n_shards)


def worker_init(tier, seed):
    _TIER[0] = tier


# ------------------------------------------------------------------ helpers

def make_settings(case):
    from adsg_core.optimization.assign_enc.matrix import MatrixGenSettings, NodeExistence, NodeExistencePatterns
    src = [c09._node(tuple(t)) for t in case['src']]
    tgt = [c09._node(tuple(t)) for t in case['tgt']]
    pats = c10.patterns_of(case)
    existences = [NodeExistence(src_exists=list(se), tgt_exists=list(te)) for se, te in pats]
    existence = NodeExistencePatterns(patterns=existences) if case['ex'] != 'none' else None
    return MatrixGenSettings(src, tgt, existence=existence), pats, existences


def manager_obs(mgr, pats, existences, case, refs=None):
    """design_vars + complete decode table + aggregate matrices: what must be equal through every cache history"""
    dvs = [(dv.n_opts, bool(dv.conditionally_active)) for dv in mgr.design_vars]
    table = []
    space = list(itertools.product(*[range(k) for k, _ in dvs]))
    if len(space) <= 3000:
        for i_ex, existence in enumerate(existences):
            if refs is not None and not refs[i_ex]:
                continue   # a pattern without any valid matrix is never decoded to
            ex_arg = existence if case['ex'] != 'none' else None
            for x in space:
                xi, act, M = mgr.get_matrix(list(x), existence=ex_arg)
                table.append((tuple(int(v) for v in xi), tuple(bool(a) for a in act), c10.tup(M)))
    agg = mgr.matrix_gen.get_agg_matrix(cache=True)
    aggs = []
    for existence in existences:
        a = agg.get(existence)
        aggs.append(None if a is None else sorted(c10.tup(m) for m in a))
    return dict(encoder=str(mgr.encoder), dvs=dvs, table=table, agg=aggs)


def cache_dir():
    from adsg_core.optimization.assign_enc.cache import get_cache_path
    return get_cache_path()


def clear_cache(sub=None):
    d = cache_dir()
    for name in (['encoder_cache', 'matrix_cache'] if sub is None else [sub]):
        shutil.rmtree(os.path.join(d, name), ignore_errors=True)


def select(case, script=None, default='run', reject=None, by_name=None):
    """Run the real selector under a scripted limiter.  reject: {candidate call index: exception name} is implemented by
    making the limiter raise that exception instead of running the candidate."""
    from adsg_core.optimization.assign_enc.selector import EncoderSelector
    from adsg_core.optimization.assign_enc.patterns.encoder import InvalidPatternEncoder
    from adsg_core.optimization.assign_enc.encoding import DetectedHighImpRatio
    EncoderSelector._numba_initialized = True   # the warm-up run is not part of the explored behaviour
    settings, pats, existences = make_settings(case)
    names = dict(TimeoutError=TimeoutError, MemoryError=MemoryError, InvalidPatternEncoder=InvalidPatternEncoder,
                 DetectedHighImpRatio=lambda: DetectedHighImpRatio(None, 1e6))
    scr = {int(k): (v if v == 'run' else names[v]) for k, v in (script or {}).items()}
    dflt = default if default == 'run' else names[default]
    bn = {k: (v if v == 'run' else names[v]) for k, v in (by_name or {}).items()}
    with env.limiter(script=scr, default=dflt, by_name=bn) as lim:
        sel = EncoderSelector(settings)
        mgr = sel.get_best_assignment_manager()
    return mgr, lim, pats, existences


# ------------------------------------------------------------------ the check

def run_selector_case(case, res):
    feats = res['features']
    tier = _TIER[0]

    def viol(kind, detail, **extra):
        res['violations'].append(dict(kind=kind, case=dict({k: v for k, v in case.items()}, **extra), detail=detail))

    pats = c10.patterns_of(case)
    refs = [c09.reference(case, [], se, te) for se, te in pats]
    max_ref = max(len(r) for r in refs)
    res['nontrivial'] = max_ref >= 2
    if max_ref == 1:
        feats['degenerate_one'] = 1
    if max_ref == 0:
        feats['degenerate_zero'] = 1

    def check(mgr, pats_, existences, label):
        dvs = list(mgr.design_vars)
        if max_ref <= 1 and len(dvs) != 0:
            viol('variables-for-at-most-one-connection-set', dict(n_vars=len(dvs), encoder=str(mgr.encoder)), script=label)
            return
        if max_ref >= 1:
            c10.check_manager(mgr, dvs, case, pats_, existences, refs, res,
                              lambda k, d, pat=None: viol(k, dict(d, encoder=str(mgr.encoder)), script=label, pattern=pat),
                              is_violation_imputer=False, kind='selected', max_space=6000)

    # --- 0 deviations, cold cache
    clear_cache()
    try:
        mgr0, lim0, pats_, existences = select(case)
    except Exception as e:
        viol('selection-raised', dict(exc=(type(e).__name__, str(e)[:300])), script='default')
        return
    res['evals'] += 1
    res['states'] += 1
    n_calls = lim0.calls
    log0 = list(lim0.log)
    check(mgr0, pats_, existences, 'default')
    if res['violations']:
        return
    obs0 = manager_obs(mgr0, pats_, existences, case, refs)

    # --- cache histories (default script)
    def compare(label, mgr):
        res['evals'] += 1
        obs = manager_obs(mgr, pats_, existences, case, refs)
        for k in ('dvs', 'table', 'agg'):
            if obs[k] != obs0[k]:
                viol('cache-history-changes-result', dict(history=label, differs=k, cold_encoder=obs0['encoder'],
                                                          encoder=obs['encoder']))
                return False
        return True

    try:
        mgr, lim, _, _ = select(case)                           # warm: both caches
        if lim.calls != 0:
            feats['warm_recomputed'] = feats.get('warm_recomputed', 0) + 1
        compare('warm', mgr)
        clear_cache('encoder_cache')                            # matrix cache warm, selection cache cold
        mgr, lim, _, _ = select(case)
        compare('matrix-warm-selection-cold', mgr)
        clear_cache('matrix_cache')                             # selection cache warm, matrix cache cold
        mgr, lim, _, _ = select(case)
        compare('selection-warm-matrix-cold', mgr)
        # matrix cache first written by a PARTIAL use of the same settings: enumeration of one existence pattern only
        if case['ex'] != 'none' and len(existences) >= 2:
            from adsg_core.optimization.assign_enc.matrix import AggregateAssignmentMatrixGenerator
            for k_pat in sorted({0, len(existences)-1}):
                clear_cache()
                st_, _, exs_ = make_settings(case)
                gen = AggregateAssignmentMatrixGenerator(st_)
                list(gen.iter_matrices(existence=exs_[k_pat]))
                gen.count_all_matrices()
                feats['partial_first'] = feats.get('partial_first', 0) + 1
                mgr, lim, _, _ = select(case)
                compare('matrix-cache-written-by-partial-enumeration-%d' % k_pat, mgr)
        # written by another process with another hash seed
        clear_cache()
        envp = os.environ.copy()
        envp['PYTHONHASHSEED'] = '4242'
        code = ("import sys, json, warnings; warnings.filterwarnings('ignore');"
                "from vf import env; from vf.props import c12;"
                "case = json.loads(sys.argv[1]); c12.select(case)")
        r = subprocess.run([sys.executable, '-c', code, json.dumps(case)], env=envp, capture_output=True, text=True)
        if r.returncode != 0:
            viol('other-process-selection-failed', dict(stderr=r.stderr[-400:]))
        else:
            feats['cache_other_process'] = feats.get('cache_other_process', 0) + 1
            mgr, lim, _, _ = select(case)
            if lim.calls != 0:
                viol('cache-of-other-process-not-used', dict(calls=lim.calls))
            compare('written-by-other-process', mgr)
    except Exception as e:
        viol('cached-selection-raised', dict(exc=(type(e).__name__, str(e)[:300])))
        return
    if res['violations'] or max_ref == 0:
        return

    # --- deviations.  Calls are identified by position; what kind of call it is comes from the default run's log
    kinds = {k: name for k, name, ans in log0}
    scripts = []
    for k in range(n_calls):
        name = kinds.get(k, '')
        scripts.append({k: 'TimeoutError'})
        if name != '<lambda>':              # the counting call only declares to handle TimeoutError
            scripts.append({k: 'MemoryError'})
        if name == '_instantiate_manager':
            scripts.append({k: 'InvalidPatternEncoder'})
            scripts.append({k: 'DetectedHighImpRatio'})
    feats['script_single_dev'] = feats.get('script_single_dev', 0) + len(scripts)
    if tier != 'quick':
        idx = list(range(min(n_calls, 12)))
        for a, b in itertools.combinations(idx, 2):
            scripts.append({a: 'TimeoutError', b: 'TimeoutError'})
            scripts.append({a: 'TimeoutError', b: 'MemoryError'} if kinds.get(b) != '<lambda>' else {a: 'TimeoutError', b: 'TimeoutError'})
    for script in scripts:
        clear_cache()
        label = json.dumps(script, sort_keys=True)
        res['evals'] += 1
        res['trans'] += 1
        try:
            mgr, lim, _, _ = select(case, script=script)
        except Exception as e:
            viol('selection-raised', dict(exc=(type(e).__name__, str(e)[:300])), script=label)
            return
        check(mgr, pats_, existences, label)
        if res['violations']:
            return
    # --- complements: only TWO candidate instantiations run, every other limited call times out (the score table then holds
    # candidates that are rarely compared with each other, e.g. only ones without a distance correlation)
    inst = [k for k in range(n_calls) if kinds.get(k) == '_instantiate_manager']
    if case.get('complements'):
        feats['script_complement'] = feats.get('script_complement', 0) + 1
        for a, b_ in itertools.combinations(inst, 2):
            clear_cache()
            label = 'only-%d-%d-run' % (a, b_)
            res['evals'] += 1
            res['trans'] += 1
            try:
                mgr, lim, _, _ = select(case, default='TimeoutError', script={0: 'run', a: 'run', b_: 'run'})
            except RuntimeError as e:
                if 'Cannot find best encoder' in str(e) or 'No encoders available' in str(e):
                    continue
                viol('selection-raised', dict(exc=(type(e).__name__, str(e)[:300])), script=label)
                return
            except Exception as e:
                viol('selection-raised', dict(exc=(type(e).__name__, str(e)[:300])), script=label)
                return
            check(mgr, pats_, existences, label)
            if res['violations']:
                return
    # --- extremes
    for label, kw in (('all-timeout', dict(default='TimeoutError')),
                      ('all-timeout-but-count', dict(default='TimeoutError', script={0: 'run'})),
                      ('all-candidates-memory-error', dict(default='MemoryError', script={0: 'run'})),
                      # no distance correlation for any candidate: the ranking falls back to the information index
                      ('all-distance-correlations-timeout', dict(by_name={'_get_dist_corr': 'TimeoutError'})),
                      ('all-distance-correlations-memory-error', dict(by_name={'_get_dist_corr': 'MemoryError'}))):
        clear_cache()
        res['evals'] += 1
        try:
            mgr, lim, _, _ = select(case, **kw)
        except RuntimeError as e:
            if 'Cannot find best encoder' in str(e) or 'No encoders available' in str(e):
                feats['explicit_giving_up'] = feats.get('explicit_giving_up', 0) + 1
                continue
            viol('selection-raised', dict(exc=(type(e).__name__, str(e)[:300])), script=label)
            return
        except Exception as e:
            viol('selection-raised', dict(exc=(type(e).__name__, str(e)[:300])), script=label)
            return
        check(mgr, pats_, existences, label)
        if res['violations']:
            return


def canonical_settings(st):
    src = [(tuple(n.conns) if n.conns is not None else None, n.min_conns, n.rep) for n in st.src]
    tgt = [(tuple(n.conns) if n.conns is not None else None, n.min_conns, n.rep) for n in st.tgt]
    ex = tuple(sorted(st.get_excluded_indices()))
    pats = None
    if st.existence is not None:
        pats = tuple((tuple(sorted((k, tuple(v)) for k, v in p.src_n_conn_override.items())),
                      tuple(sorted((k, tuple(v)) for k, v in p.tgt_n_conn_override.items())),
                      p.max_src_conn_override, p.max_tgt_conn_override) for p in st.existence.patterns)
    return (tuple(src), tuple(tgt), ex, pats, st.max_conn_parallel)


def key_family(shard, n_shards):
    """A large family of settings (only keys are computed): C09's quick enumeration x exclusions x existence sets."""
    from adsg_core.optimization.assign_enc.matrix import MatrixGenSettings, NodeExistence, NodeExistencePatterns
    i = -1
    for case in c09.cases('quick', 0):
        n, m = len(case['src']), len(case['tgt'])
        for excl in [None, []] + [[(a, b)] for a in range(n) for b in range(m)]:
            for exv in ('none', 'all', 'src0', 'src0_rev', 'ovr', 'ovr_rev'):
                i += 1
                if i % n_shards != shard:
                    continue
                src = [c09._node(tuple(t)) for t in case['src']]
                tgt = [c09._node(tuple(t)) for t in case['tgt']]
                if exv == 'none':
                    ex = None
                elif exv == 'all':
                    ex = NodeExistencePatterns([NodeExistence()])
                elif exv == 'src0':
                    ex = NodeExistencePatterns([NodeExistence(), NodeExistence(src_exists=[False]+[True]*(n-1))])
                elif exv == 'src0_rev':   # the same patterns in another order are other settings (patterns are addressed by index)
                    ex = NodeExistencePatterns([NodeExistence(src_exists=[False]+[True]*(n-1)), NodeExistence()])
                elif exv == 'ovr':
                    ex = NodeExistencePatterns([NodeExistence(), NodeExistence(tgt_n_conn_override={m-1: [0, 1]})])
                else:
                    ex = NodeExistencePatterns([NodeExistence(tgt_n_conn_override={m-1: [0, 1]}), NodeExistence()])
                excluded = None if excl is None else [(src[a], tgt[b]) for a, b in excl]
                yield MatrixGenSettings(src, tgt, excluded=excluded, existence=ex)


def run_keys_case(case, res):
    res['features']['key_family'] = 1
    out = {}
    n = 0
    for st in key_family(case['shard'], case['n_shards']):
        n += 1
        key = st.get_cache_key()
        canon = canonical_settings(st)
        # excluded=None and excluded=[] are the same settings
        out.setdefault(key, set()).add(canon)
    res['evals'] += n
    res['trans'] += n
    res['_keys'] = {k: sorted(repr(c) for c in v) for k, v in out.items()}
    res['nontrivial'] = True


def run_case(case):
    res = dict(evals=0, states=0, trans=0, nontrivial=False, features={}, violations=[])
    if case['kind'] == 'keys':
        run_keys_case(case, res)
        res['sample'] = dict(case=case, n_keys=len(res['_keys']))
    else:
        run_selector_case(case, res)
        res['sample'] = dict(case=case)
    return res


def collect(extra, res):
    if '_keys' in res:
        allk = extra.setdefault('_allkeys', {})
        for k, v in res['_keys'].items():
            allk.setdefault(k, set()).update(v)


def finalize(agg, tier):
    allk = agg['extra'].get('_allkeys', {})
    agg['extra']['cache_keys_compared'] = len(allk)
    agg['extra']['settings_in_key_family'] = sum(len(v) for v in allk.values())
    out = []
    for k, v in allk.items():
        if len(v) > 1:
            out.append(dict(kind='cache-key-collision', case=dict(kind='keys', key=k), detail=dict(settings=sorted(v)[:3])))
    agg['extra'].pop('_allkeys', None)
    return out
