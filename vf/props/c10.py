"""
C10 -- every connection encoder is a faithful, total and onto coding of connection sets
(and the assignment-manager level of C07: activeness contract of every registered encoder).

E1 over ALL factories of encoder_registry (eager, lazy, enumerating, pattern) x imputers x connector settings
with existence patterns x EVERY vector of the declared space plus out-of-range / too-long vectors; oracle =
brute-force matrix sets per existence pattern.
"""
import itertools
import numpy as np
from vf import refmodel, env
from vf.props import c09

LEVEL = 'model_checking'
RULE = ('case = one connector setting with its existence patterns; all registered encoders x imputers are instantiated on it '
        'and every vector of each declared space (+ out-of-range variants) is decoded per pattern; non-trivial = setting '
        'with a pattern that has >= 2 valid matrices; distinct by construction')
ASSUMPTIONS = ['brute-force reference matrices (vf/refmodel.valid_matrices)',
               'the two constraint-violation imputers are documented to flag instead of repair: "valid matrix" is replaced by '
               '"valid or flagged, and never flagged on a direct hit" for them',
               'declared spaces > 6000 (quick) / 20000 (thorough) vectors are skipped and counted (then exhaustive=false)']
CHUNK = 3
REQUIRED_FEATURES = {'*': ['eager', 'lazy', 'enum', 'pattern_ok', 'pattern_rejected', 'imputed', 'out_of_range', 'inactive_var', 'previous_manager_rechecked', 'live_pair']}
EXHAUSTIVE = True

T5 = [('1', False), ('0..1', False), ('0..*', True), ('1..*', False), ('0,2', True)]
T6 = T5 + [('1..2', True)]
MAX_SPACE = {'quick': 6000, 'thorough': 20000}
_TIER = ['quick']
_PREV = {}   # (encoder factory, imputer) -> (previous manager, its decode arguments, its decode table, its case)


def scope_text(tier):
    return ('settings 1x1, 1x2, 2x1 (all encoders x all imputers) and 2x2 (all encoders x default imputers) over %d connector '
            'types, existence pattern sets {always, first source conditional, last target conditional, both}%s; full declared '
            'vector space + each variable at -1 / n_opts / n_opts+3 + vectors 1 and 2 entries too long'
            % ((5, '') if tier == 'quick' else (6, '; plus 2x3/3x2 over 4 types and single exclusions')))


def cases(tier, seed):
    T = T5 if tier == 'quick' else T6
    pairs = list(itertools.combinations_with_replacement(T, 2))
    ex_variants = ['none', 'src0', 'tgtL', 'both']
    for s in T:
        for t in T:
            for ex in ex_variants:
                yield dict(src=[s], tgt=[t], ex=ex, imputers='all')
    for s in T:
        for p in pairs:
            for ex in ex_variants:
                yield dict(src=[s], tgt=list(p), ex=ex, imputers='all')
                yield dict(src=list(p), tgt=[s], ex=ex, imputers='all')
    for s in pairs:
        for t in pairs:
            for ex in ex_variants:
                yield dict(src=list(s), tgt=list(t), ex=ex, imputers='default')
    # existence patterns with the SAME existence mask and different overridden degrees (grouping connectors)
    for s in [('0..*', False), ('0..*', True), ('1..*', False)]:
        for t in pairs[:6]:
            for ovs in ([[1], [2]], [[0, 1], [2]], [[1], [1, 2]]):
                yield dict(src=[s], tgt=list(t), ex='ovp', imputers='all',
                           ovp=[[[True], [True, True], {'0': ov}, {}] for ov in ovs])
                yield dict(src=list(t), tgt=[s], ex='ovp', imputers='all',
                           ovp=[[[True, True], [True], {}, {'0': ov}] for ov in ovs])
    yield from pair_cases()
    if tier != 'quick':
        T4 = [('1', False), ('0..1', False), ('0..*', True), ('1..*', False)]
        for s in itertools.combinations_with_replacement(T4, 2):
            for t in itertools.combinations_with_replacement(T4, 3):
                yield dict(src=list(s), tgt=list(t), ex='none', imputers='default')
                yield dict(src=list(t), tgt=list(s), ex='src0', imputers='default')
        for s in pairs:
            for t in pairs:
                yield dict(src=list(s), tgt=list(t), ex='none', imputers='default', excl=[[0, 1]])
                yield dict(src=list(s), tgt=list(t), ex='tgtL', imputers='default', excl=[[1, 0]])


REP1 = [('0..*', True), ('1..*', True), ('1..2', True), ('0..2', True), ('2..*', True)]


def pair_cases():
    """two different 1x1 settings handled by two LIVE instances of the same encoder factory (state shared between instances)"""
    singles = [dict(src=[a], tgt=[b], ex='none', imputers='default') for a in REP1 for b in REP1]
    for i, a in enumerate(singles):
        for j, b in enumerate(singles):
            if i != j:
                yield dict(kind='pair', first=a, second=b)


def run_pair(case):
    from adsg_core.optimization.assign_enc.matrix import MatrixGenSettings
    from adsg_core.optimization.assign_enc.assignment_manager import AssignmentManager, LazyAssignmentManager
    from adsg_core.optimization.assign_enc.patterns.encoder import InvalidPatternEncoder
    from adsg_core.optimization.assign_enc.lazy_encoding import LazyEncoder
    res = dict(evals=0, states=0, trans=0, nontrivial=True, features={'live_pair': 1}, violations=[])
    encs, er = registry()

    def build(st_case, factory, imp):
        settings = MatrixGenSettings([c09._node(t) for t in st_case['src']], [c09._node(t) for t in st_case['tgt']])
        enc = factory(imp())
        return (LazyAssignmentManager if isinstance(enc, LazyEncoder) else AssignmentManager)(settings, enc)

    def table(mgr):
        n_o = [dv.n_opts for dv in mgr.design_vars]
        out = []
        for x in itertools.product(*[range(k) for k in n_o]):
            try:
                xi, act, M = mgr.get_matrix(list(x))
                out.append((x, [int(v) for v in xi], [bool(a) for a in act], tup(M)))
            except Exception as e:
                out.append((x, 'EXC', type(e).__name__))
        return out

    for kind, idx, factory in encs:
        imp = er.EAGER_IMPUTERS[1] if kind == 'eager' else er.LAZY_IMPUTERS[1]
        try:
            a = build(case['first'], factory, imp)
            ta = table(a)
        except InvalidPatternEncoder:
            continue
        except Exception:
            continue   # reported by the single-setting cases
        try:
            b = build(case['second'], factory, imp)
            table(b)
        except Exception:
            pass
        res['evals'] += 1
        res['states'] += 1
        res['trans'] += len(ta)
        ta2 = table(a)
        if ta2 != ta:
            d = [(u, v) for u, v in zip(ta, ta2) if u != v][:1]
            res['violations'].append(dict(kind='older-encoder-instance-changed-by-newer-one',
                                          case=dict(case, encoder=f'{kind}{idx}'), detail=dict(first_difference=d)))
    res['sample'] = case
    return res


def worker_init(tier, seed):
    _TIER[0] = tier
    env.install_inline_limiter()


def patterns_of(case):
    n, m = len(case['src']), len(case['tgt'])
    all_s, all_t = [True]*n, [True]*m
    pats = [(tuple(all_s), tuple(all_t))]
    if case['ex'] in ('src0', 'both'):
        pats.append((tuple([False]+all_s[1:]), tuple(all_t)))
    if case['ex'] in ('tgtL', 'both'):
        pats.append((tuple(all_s), tuple(all_t[:-1]+[False])))
    if case['ex'] == 'both':
        pats.append((tuple([False]+all_s[1:]), tuple(all_t[:-1]+[False])))
    return pats


def registry():
    from adsg_core.optimization.assign_enc import encoder_registry as er
    out = []
    for i, f in enumerate(er.EAGER_ENCODERS):
        out.append(('eager', i, f))
    for i, f in enumerate(er.LAZY_ENCODERS):
        out.append(('lazy', i, f))
    for i, f in enumerate(er.EAGER_ENUM_ENCODERS):
        out.append(('enum', i, f))
    for i, f in enumerate(er.PATTERN_ENCODERS):
        out.append(('pattern', i, f))
    return out, er


def tup(mat):
    return tuple(tuple(int(v) for v in row) for row in mat)



def check_manager(mgr, dvs, case, pats, existences, refs, res, viol, is_violation_imputer=False, kind='selected',
                  max_space=6000):
    """All C10 laws (and the manager-level C07 laws) on one assignment manager."""
    from adsg_core.optimization.assign_enc.matrix import NodeExistence
    feats = res['features']
    feats[kind if kind != 'pattern' else 'pattern_ok'] = feats.get(kind if kind != 'pattern' else 'pattern_ok', 0) + 1
    res['states'] += 1
    n_opts = [dv.n_opts for dv in dvs]
    size = int(np.prod(n_opts)) if n_opts else 1
    if size > max_space:
        res.setdefault('caps', {})['space_too_large'] = res.get('caps', {}).get('space_too_large', 0) + 1
        return
    space = list(itertools.product(*[range(k) for k in n_opts]))
    extra = []
    base = [0]*len(n_opts)
    for i, k in enumerate(n_opts):
        for v in (-1, k, k+3):
            x = list(base)
            x[i] = v
            extra.append(tuple(x))
    extra.append(tuple(base+[0]))
    extra.append(tuple(base+[1, 1]))
    try:
        all_dv = mgr.get_all_design_vectors()
    except Exception as e:
        viol('get-all-design-vectors-raised', dict(exc=(type(e).__name__, str(e)[:200])))
        return
    used_values = [set() for _ in n_opts]
    ok_encoder = True
    for (se, te), existence, ref in zip(pats, existences, refs):
        pat = [list(se), list(te)]
        if not ref:
            continue
        ex_arg = existence if case['ex'] != 'none' else None
        corrected = {}
        mats = set()
        for x in space+extra:
            res['evals'] += 1
            res['trans'] += 1
            is_extra = x in extra and x not in space
            if is_extra:
                feats['out_of_range'] = feats.get('out_of_range', 0) + 1
            try:
                xi, act, M = mgr.get_matrix(list(x), existence=ex_arg)
                xi = [int(v) for v in xi]
                act = [bool(a) for a in act]
            except Exception as e:
                viol('get-matrix-raised', dict(x=x, exc=(type(e).__name__, str(e)[:200])), pat)
                ok_encoder = False
                break
            flagged = M.shape[0] > 0 and M.shape[1] > 0 and M[0, 0] == -1
            if flagged:
                if not is_violation_imputer:
                    viol('invalid-matrix-flag-from-repairing-imputer', dict(x=x), pat)
                    ok_encoder = False
                    break
                continue
            Mt = tup(M)
            if Mt not in ref:
                viol('decoded-matrix-invalid', dict(x=x, x_imp=xi, matrix=Mt), pat)
                ok_encoder = False
                break
            xin = xi[:len(n_opts)]
            if any(not (0 <= v < k) for v, k in zip(xin, n_opts)) or len(xi) < len(n_opts):
                viol('corrected-vector-out-of-range', dict(x=x, x_imp=xi), pat)
                ok_encoder = False
                break
            if any(a for a in act[len(n_opts):]) or any(v != 0 for v in xi[len(n_opts):]):
                viol('extra-entries-not-inactive', dict(x=x, x_imp=xi, act=act), pat)
                ok_encoder = False
                break
            if tuple(xin) != tuple(x[:len(n_opts)]):
                feats['imputed'] = feats.get('imputed', 0) + 1
            # C07 at manager level
            for i, (v, a, dv) in enumerate(zip(xin, act, dvs)):
                if not a:
                    feats['inactive_var'] = feats.get('inactive_var', 0) + 1
                    if v != 0:
                        viol('C07-inactive-not-canonical', dict(x=x, x_imp=xi, act=act), pat)
                        ok_encoder = False
                    if not dv.conditionally_active:
                        viol('C07-unconditional-variable-inactive', dict(x=x, x_imp=xi, act=act, var=i), pat)
                        ok_encoder = False
                else:
                    used_values[i].add(v)
            if not ok_encoder:
                break
            # idempotent (twice)
            for rep in (1, 2):
                x2, a2, M2 = mgr.get_matrix(list(xin), existence=ex_arg)
                res['trans'] += 1
                if [int(v) for v in x2][:len(n_opts)] != xin or [bool(a) for a in a2][:len(n_opts)] != act[:len(n_opts)] \
                        or tup(M2) != Mt:
                    viol('not-idempotent', dict(x=x, x_imp=xin, again=[int(v) for v in x2], act=act,
                                                act_again=[bool(a) for a in a2], same_matrix=tup(M2) == Mt, rep=rep), pat)
                    ok_encoder = False
                    break
            if not ok_encoder:
                break
            prev = corrected.setdefault(tuple(xin), (Mt, tuple(act[:len(n_opts)])))
            if prev[0] != Mt:
                viol('same-corrected-vector-different-matrix', dict(x=x, x_imp=xin), pat)
                ok_encoder = False
                break
            if prev[1] != tuple(act[:len(n_opts)]):
                viol('C07-activeness-depends-on-raw-vector', dict(x=x, x_imp=xin, act=act, other=prev[1]), pat)
                ok_encoder = False
                break
            mats.add(Mt)
        if not ok_encoder:
            break
        if is_violation_imputer:
            # direct hits are never flagged: every listed design vector decodes to a valid matrix
            pass
        elif mats != ref:
            viol('not-onto', dict(missing=sorted(ref-mats)[:3], n_ref=len(ref), n_got=len(mats)), pat)
            break
        # listed design vectors
        listed = all_dv.get(existence) if existence in all_dv else all_dv.get(NodeExistence())
        if listed is None:
            viol('pattern-missing-from-design-vector-listing', {}, pat)
            break
        listed_rows = [tuple(int(v) for v in r) for r in listed]
        zeros = {tuple(max(v, 0) for v in r)[:len(n_opts)] for r in listed_rows}
        if not is_violation_imputer and zeros != set(corrected):
            viol('listed-design-vectors-differ', dict(only_listed=sorted(zeros-set(corrected))[:3],
                                                       only_decoded=sorted(set(corrected)-zeros)[:3],
                                                       n_listed=len(zeros), n_decoded=len(corrected)), pat)
            break
        if len(zeros) != len(listed_rows):
            viol('listed-design-vectors-not-unique', dict(n=len(listed_rows), distinct=len(zeros)), pat)
            break
        # C07: the listed activeness (-1 pattern) equals the decoded activeness, also for the constraint-violation imputers
        for r in listed_rows:
            x0 = [max(v, 0) for v in r][:len(n_opts)]
            xr, ar, Mr = mgr.get_matrix(list(x0), existence=ex_arg)
            res['trans'] += 1
            if Mr.shape[0] > 0 and Mr.shape[1] > 0 and Mr[0, 0] == -1:
                viol('listed-design-vector-flagged-invalid', dict(row=r), pat)
                ok_encoder = False
                break
            if [int(v) for v in xr][:len(n_opts)] != x0:
                viol('listed-design-vector-not-a-fixed-point', dict(row=r, decoded=[int(v) for v in xr]), pat)
                ok_encoder = False
                break
            if [bool(a) for a in ar][:len(n_opts)] != [v != -1 for v in r][:len(n_opts)]:
                viol('C07-listed-activeness-differs-from-decode', dict(row=r, decoded=[bool(a) for a in ar]), pat)
                ok_encoder = False
                break
        if not ok_encoder:
            break
    if ok_encoder and not is_violation_imputer:
        for i, vals in enumerate(used_values):
            if len(vals) < 2:
                viol('variable-with-less-than-two-used-values', dict(var=i, n_opts=n_opts[i], used=sorted(vals)))
                break


def run_case(case):
    if case.get('kind') == 'pair':
        return run_pair(case)
    from adsg_core.optimization.assign_enc.matrix import MatrixGenSettings, NodeExistence, NodeExistencePatterns
    from adsg_core.optimization.assign_enc.assignment_manager import AssignmentManager, LazyAssignmentManager
    from adsg_core.optimization.assign_enc.patterns.encoder import InvalidPatternEncoder
    from adsg_core.optimization.assign_enc.lazy_encoding import LazyEncoder

    res = dict(evals=0, states=0, trans=0, nontrivial=False, features={}, violations=[])
    feats = res['features']
    n, m = len(case['src']), len(case['tgt'])
    excl = [tuple(e) for e in case.get('excl', [])]
    ovp = case.get('ovp')   # explicit patterns with degree overrides: [[src_exists, tgt_exists, src_override, tgt_override], ...]
    if ovp:
        pats = [(tuple(se), tuple(te)) for se, te, _, _ in ovp]
        refs = [c09.reference(dict(case, src_override=so, tgt_override=to), excl, se, te) for se, te, so, to in ovp]
    else:
        pats = patterns_of(case)
        refs = [c09.reference(case, excl, se, te) for se, te in pats]
    if any(len(r) >= 2 for r in refs):
        res['nontrivial'] = True
    if not any(len(r) >= 1 for r in refs):
        res['sample'] = dict(case=case, skipped='no valid matrix in any pattern')
        return res
    encs, er = registry()

    def make_settings():
        src = [c09._node(t) for t in case['src']]
        tgt = [c09._node(t) for t in case['tgt']]
        if ovp:
            existences = [NodeExistence(src_exists=list(se), tgt_exists=list(te),
                                        src_n_conn_override={int(k): list(v) for k, v in (so or {}).items()} or None,
                                        tgt_n_conn_override={int(k): list(v) for k, v in (to or {}).items()} or None)
                          for se, te, so, to in ovp]
        else:
            existences = [NodeExistence(src_exists=list(se), tgt_exists=list(te)) for se, te in pats]
        existence = NodeExistencePatterns(patterns=existences) if case['ex'] != 'none' else None
        st = MatrixGenSettings(src, tgt, excluded=[(src[i], tgt[j]) for i, j in excl] or None, existence=existence)
        return st, existences

    for kind, idx, factory in encs:
        if kind == 'eager':
            imputers = list(enumerate(er.EAGER_IMPUTERS)) if case['imputers'] == 'all' else [(1, er.EAGER_IMPUTERS[1])]
        else:
            imputers = list(enumerate(er.LAZY_IMPUTERS)) if case['imputers'] == 'all' else [(1, er.LAZY_IMPUTERS[1])]
        for i_imp, imp_factory in imputers:
            label = f'{kind}{idx}/imp{i_imp}'

            def viol(k, detail, pat=None):
                res['violations'].append(dict(kind=k, case=dict(case, encoder=label, pattern=pat), detail=detail))

            settings, existences = make_settings()
            try:
                encoder = factory(imp_factory())
                name = str(encoder)
                is_violation_imputer = 'Violat' in type(encoder._imputer).__name__
                cls = LazyAssignmentManager if isinstance(encoder, LazyEncoder) else AssignmentManager
                mgr = cls(settings, encoder)
                dvs = list(mgr.design_vars)
            except InvalidPatternEncoder:
                feats['pattern_rejected'] = feats.get('pattern_rejected', 0) + 1
                if kind != 'pattern':
                    viol('non-pattern-encoder-rejected-settings', {})
                continue
            except Exception as e:
                viol('encoder-construction-raised', dict(exc=(type(e).__name__, str(e)[:200])))
                continue
            # persistence of encoder objects: the manager built for the PREVIOUS settings by the same factory is decoded
            # again now that another instance exists (state shared between instances shows up here)
            prev = _PREV.get((kind, idx, i_imp))
            if prev is not None:
                pm, pargs, ptable, pcase = prev
                feats['previous_manager_rechecked'] = feats.get('previous_manager_rechecked', 0) + 1
                for (x, ex_arg), exp in zip(pargs, ptable):
                    try:
                        xi, act, M = pm.get_matrix(list(x), existence=ex_arg)
                        got = ([int(v) for v in xi], [bool(a) for a in act], tup(M))
                    except Exception as e:
                        got = ('EXC', type(e).__name__)
                    res['trans'] += 1
                    if got != exp:
                        res['violations'].append(dict(kind='older-encoder-instance-changed-by-newer-one',
                                                      case=dict(pcase, encoder=label, then=dict(src=case['src'], tgt=case['tgt'], ex=case['ex'])),
                                                      detail=dict(x=x, before=exp, after=got)))
                        break
            check_manager(mgr, dvs, case, pats, existences, refs, res, viol, is_violation_imputer=is_violation_imputer,
                          kind=kind, max_space=MAX_SPACE[_TIER[0]])
            try:
                n_o = [dv.n_opts for dv in dvs]
                if 0 < len(n_o) and int(np.prod(n_o)) <= 64:
                    args, table = [], []
                    for existence, ref in zip(existences, refs):
                        if not ref:
                            continue
                        ex_arg = existence if case['ex'] != 'none' else None
                        for x in itertools.product(*[range(k) for k in n_o]):
                            xi, act, M = mgr.get_matrix(list(x), existence=ex_arg)
                            args.append((x, ex_arg))
                            table.append(([int(v) for v in xi], [bool(a) for a in act], tup(M)))
                    _PREV[(kind, idx, i_imp)] = (mgr, args, table, dict(src=case['src'], tgt=case['tgt'], ex=case['ex'], imputers=case['imputers']))
            except Exception:
                _PREV.pop((kind, idx, i_imp), None)
    res['sample'] = dict(case=case, n_patterns=len(pats), ref_sizes=[len(r) for r in refs])
    return res
