"""
C05 -- decoding is a pure function of graph, fixed values and vector.

E3 (history exploration) on GraphProcessor: for every driver spec and both encoders, EVERY sequence of operations up to
the depth bound over the alphabet {decode(x, create) for every x and both flags, enumerate, statistics, fix(v, val) for every
selection/design-variable variable and value, free(v), mutate the last returned instance, pickle round trip} is replayed on a
fresh processor; after the sequence the complete observable state (decode table for both create flags, enumeration, counts)
must equal that of a fresh processor with the same fixed values (differential oracle); instances returned along the way must
be independent objects.  Configuration axis: the same tables from sub-processes with hash seeds {0,1,2} x 3 node-id assignments.
"""
import os
import sys
import json
import pickle
import itertools
import subprocess
import numpy as np

from vf import refmodel, sweep, enumerate as en, families, env, build as vbuild, observe, proc

LEVEL = 'model_checking'
RULE = ('case = (driver spec, encoder, first operation): all operation sequences of length <= depth starting with that operation '
        '(quick: decode operations restricted to 5+2 vectors (first, its last-variable neighbour, two spread, last), thorough: every vector); '
        'states = sequences executed, transitions = operations replayed; non-trivial = sequence containing a state-changing '
        'operation (fix/free/mutate/pickle) or a corrected decode; plus one case per (driver spec) for the hash-seed x id-assignment axis')
ASSUMPTIONS = ['stateless enumeration (no state merging, so nothing is merged wrongly): quick all sequences <= 3 over the reduced decode alphabet; thorough <= 3 over the full alphabet and <= 4 over the reduced one',
               'the fresh processor lives in the same worker process: process-wide caches (lru_cache, class attributes) are shared; '
               'every violation is re-run in a fresh process by the runner',
               'driver specs are selected by feature predicates from the families (see drivers())']
CHUNK = 1
REQUIRED_FEATURES = {'*': ['seq_with_fix', 'seq_with_mutate', 'seq_with_pickle', 'config_axis', 'drv_conn', 'drv_dv', 'drv_infeasible_comb']}
_TIER = ['quick']


def scope_text(tier):
    return '%d driver specs x 2 encoders x all operation sequences of length <= 3 (%s); hash seeds {0,1,2} x 3 id assignments' % \
        (len(drivers(tier)), 'reduced decode alphabet' if tier == 'quick' else 'full alphabet; <= 4 over the reduced alphabet')


def drivers(tier='quick'):
    """Driver set: one subject per shortcut visible in the code (DESIGN.md C05)."""
    S = families.skel
    d = []
    # infeasible combination -> feasibility mask / retry loop
    d.append(('infeasible_comb', dict(starts=['s0'], nodes=['n1', 'n2', 'n3'], edges=[['n1', 'n3']],
                                      choices=[['C0', 's0', ['n1', 'n2']], ['C1', 's0', ['n3', 'n2']]], incompat=[['n1', 'n2']])))
    # the F2 history: two independent choices, three options
    d.append(('two_choices', dict(starts=['a'], nodes=['b', 'c', 'd', 'e', 'f'], edges=[],
                                  choices=[['C1', 'a', ['b', 'c', 'd']], ['C2', 'a', ['e', 'f']]], incompat=[])))
    # a vector that is only found infeasible while the graph is built (FAST: NoOptionError / exclude set), two 3-option choices
    d.append(('incompat_mid', dict(starts=['a'], nodes=['b', 'c', 'd', 'e', 'f', 'g'], edges=[],
                                   choices=[['C1', 'a', ['b', 'c', 'd']], ['C2', 'a', ['e', 'f', 'g']]], incompat=[['b', 'f']])))
    # three simultaneously active connection choices (graph cache keyed by the previous connection values)
    d.append(('conn3', list(families.con3('quick'))[6]))
    # hierarchy: nested choice (conditionally active variable)
    d.append(('nested', S('nested')))
    # connection choice with >= 2 scenarios, one of them infeasible for FAST (excluded cache)
    d.append(('conn', families._conn_spec('one', [('1', False, 'a'), ('0..1', False, 'o1')], [('0..*', False, 'a'), ('1', False, 'o2')])))
    d.append(('conn_grp', families._conn_spec('one', [('0..1', False, 'a'), ('1', False, 'o1')], [('1', False, 'o1')], grp='src')))
    # dv nodes (copy-on-assign)
    sp = S('one')
    sp['dv'] = {'D1': dict(anchor='o1', options=2), 'D2': dict(anchor='a', bounds=[0.0, 1.0])}
    d.append(('dv', sp))
    # linked choices
    sp = dict(starts=['a'], nodes=['x0', 'x1', 'y0', 'y1'], edges=[], incompat=[],
              choices=[['X0', 'a', ['x0', 'x1']], ['X1', 'a', ['y0', 'y1']]], cc=[['LINKED', ['X0', 'X1']]])
    d.append(('linked', sp))
    # LINKED follower (gets no variable) in front of a conditional choice: variable position != choice position
    d.append(('forced_before_cond', dict(starts=['a'], nodes=['x0o0', 'x0o1', 'x1o0', 'x1o1', 'zo0', 'zo1'], edges=[], incompat=[],
                                         choices=[['X0', 'a', ['x0o0', 'x0o1']], ['X1', 'a', ['x1o0', 'x1o1']], ['Z', 'x0o1', ['zo0', 'zo1']]],
                                         cc=[['LINKED', ['X0', 'X1']]])))
    # forced choice
    d.append(('forced', dict(starts=['s0'], nodes=['n1', 'n2', 'n3'], edges=[], incompat=[],
                             choices=[['C0', 's0', ['n1']], ['C1', 'n1', ['n2', 'n3']]])))
    # metric node for mutate
    sp = S('one')
    sp['met'] = {'M1': dict(anchor='a', dir=-1, ref=None, type=None)}
    d.append(('metric', sp))
    if tier != 'quick':
        d.append(('mutex', S('mutex')))
        d.append(('conn22', families._conn_spec('one', [('0..1', False, 'a'), ('0..*', False, 'o1')],
                                                 [('0..1', False, 'a'), ('0..*', False, 'o2')], excl=[('S1', 'T2')])))
    return d


def cases(tier, seed):
    _TIER[0] = tier
    env.install_inline_limiter()
    for name, spec in drivers(tier):
        yield dict(kind='config', name=name, spec=spec)
        for enc in ('COMPLETE', 'FAST'):
            n_ops = len(alphabet_for(spec, enc))
            for first in range(n_ops):
                yield dict(kind='hist', name=name, spec=spec, enc=enc, first=first, depth=3, reduced=False)
            if tier != 'quick' and name != 'forced_before_cond':   # (its depth-3 alphabet is already the full one)
                for first in range(len(alphabet_for(spec, enc, reduced=True))):
                    yield dict(kind='hist', name=name, spec=spec, enc=enc, first=first, depth=4, reduced=True)


def worker_init(tier, seed):
    _TIER[0] = tier
    env.install_inline_limiter()


# ------------------------------------------------------------------ subject + operations

class Subject:
    def __init__(self, spec, enc):
        self.t = sweep.decode_table(spec, enc, space=[])
        self.t.rows = []
        self.gp = self.t.gp
        self.last = None
        self.instances = []

    def all_vars(self):
        return list(self.gp.all_des_vars)


def alphabet_for(spec, enc, reduced=False):
    s = Subject(spec, enc)
    if s.gp is None:
        return []
    ops = []
    dvs = s.all_vars()
    space = list(itertools.product(*[sweep.dv_values(dv) for dv in dvs]))
    # decodes are generated against the FULL (unfixed) variable list; fixed variables are dropped at apply time
    if (_TIER[0] == 'quick' or reduced) and len(space) > 5:
        # quick: first, last and two spread vectors as history operations (the observation still decodes ALL vectors)
        k = len(space)
        # space[0]/space[1] differ in the last variable only (caches keyed by a prefix of the vector)
        space_ops = [space[0], space[1], space[k//3], space[(2*k)//3], space[-1]]
    else:
        space_ops = space
    for x in space_ops:
        ops.append(('decode', list(x), True))
    for x in space_ops[:2] if (_TIER[0] == 'quick' or reduced) else space_ops:
        ops.append(('decode', list(x), False))
    ops.append(('enum',))
    ops.append(('stats',))
    for i, dv in enumerate(dvs):
        kind, _ = proc.var_owner(s.t, dv)
        if kind == 'conn':
            continue
        for v in sweep.dv_values(dv):
            ops.append(('fix', i, v))
        ops.append(('free', i))
    ops.append(('mutate',))
    ops.append(('pickle',))
    return ops


def apply_op(s, op):
    gp = s.gp
    if op[0] == 'decode':
        fixed = gp.fixed_values
        x = [v for i, v in enumerate(op[1]) if i not in fixed]
        inst, x_imp, act = gp.get_graph(x, create=op[2])
        if inst is not None:
            s.last = inst
            s.instances.append(inst)
    elif op[0] == 'enum':
        gp.get_all_discrete_x()
    elif op[0] == 'stats':
        gp.get_statistics()
    elif op[0] == 'fix':
        gp.fix_des_var(s.all_vars()[op[1]], op[2])
    elif op[0] == 'free':
        gp.free_des_var(s.all_vars()[op[1]])
    elif op[0] == 'mutate':
        if s.last is not None:
            from adsg_core.graph.adsg_nodes import NamedNode
            inst = s.last
            for n in list(inst.metric_nodes):
                inst.set_metric_value(n, 123.0)
            for n in list(inst.des_var_nodes):
                inst.set_des_var_value(n, 1)
            inst.add_node(NamedNode('junk', obj_id=987654))
            inst.add_edge(next(iter(inst.derivation_start_nodes)), NamedNode('junk2', obj_id=987655))
    elif op[0] == 'pickle':
        gp2 = pickle.loads(pickle.dumps(gp))
        s.gp = gp2
        s.t.gp = gp2
        # labels: unpickled nodes are new objects; names are recovered through str_context-free matching on obj_id hash
        remap = {}
        for n in gp2.graph.graph.nodes:
            remap[n] = s.t.b.name(n) if n in s.t.b.names else None
        for n, nm in remap.items():
            if nm is not None:
                s.t.b.names[n] = nm
    else:
        raise ValueError(op)


def observe_subject(s):
    """Complete observable state: decode table (both flags) over the current free variables, enumeration and counts."""
    gp = s.gp
    dvs = list(gp.des_vars)
    out = dict(des_vars=[(dv.name, dv.n_opts if dv.is_discrete else tuple(dv.bounds)) for dv in dvs], table=[])
    s.t.des_vars = dvs
    for x in itertools.product(*[sweep.dv_values(dv) for dv in dvs]):
        r1 = sweep.decode_row(s.t, list(x), create=True, with_dv_key=True, keep_instance=True)
        if 'inst' in r1:
            s.instances.append(r1.pop('inst'))
        r0 = sweep.decode_row(s.t, list(x), create=False)
        out['table'].append((tuple(x), r1.get('x_imp'), r1.get('act'), r1.get('key'), r1['exc'] and r1['exc'][0],
                             r0.get('x_imp'), r0.get('act'), r0['exc'] and r0['exc'][0]))
    try:
        res = gp.get_all_discrete_x()
        if res is None:
            out['enum'] = None
        else:
            out['enum'] = (sorted(observe.clean_x(r) for r in res[0]), int(gp.get_n_valid_designs(with_fixed=True)))
    except Exception as e:
        out['enum'] = ('EXC', type(e).__name__)
    out['n_space'] = int(gp.get_n_design_space(with_fixed=True))
    return out


def reference_obs(spec, enc, fixed, cache):
    key = tuple(sorted(fixed.items()))
    if key not in cache:
        s = Subject(spec, enc)
        for i, v in sorted(fixed.items()):
            s.gp.fix_des_var(s.all_vars()[i], v)
        cache[key] = observe_subject(s)
    return cache[key]


def check_instances(s):
    """Returned instances are independent objects."""
    seen_g, seen_graph, seen_vals = {}, {}, {}
    for k, inst in enumerate(s.instances):
        if id(inst) in seen_g:
            return dict(what='same DSG object returned twice', first=seen_g[id(inst)], second=k)
        if id(inst.graph) in seen_graph:
            return dict(what='two instances share one graph object', first=seen_graph[id(inst.graph)], second=k)
        seen_g[id(inst)] = k
        seen_graph[id(inst.graph)] = k
    return None


def run_hist(case, res):
    spec, enc = case['spec'], case['enc']
    feats = res['features']
    ops = alphabet_for(spec, enc, reduced=case.get('reduced', False))
    depth = case.get('depth', 3)
    first = ops[case['first']]
    ref_cache = {}

    def viol(kind, detail, seq):
        res['violations'].append(dict(kind=kind, case=dict(name=case['name'], spec=spec, enc=enc, seq=[list(map(_j, o)) for o in seq]),
                                      detail=detail))

    n_seq = 0
    for d in range(1, depth+1):
        for rest in itertools.product(range(len(ops)), repeat=d-1):
            seq = [first] + [ops[i] for i in rest]
            # prune sequences that cannot differ from a shorter one: free of a variable that is not fixed
            n_seq += 1
            s = Subject(spec, enc)
            fixed = {}
            err = None
            for op in seq:
                res['trans'] += 1
                try:
                    apply_op(s, op)
                except Exception as e:
                    err = (op, type(e).__name__, str(e)[:200])
                    break
                if op[0] == 'fix':
                    fixed[op[1]] = op[2]
                elif op[0] == 'free':
                    fixed.pop(op[1], None)
            res['states'] += 1
            res['evals'] += 1
            kinds = {o[0] for o in seq}
            if 'fix' in kinds:
                feats['seq_with_fix'] = feats.get('seq_with_fix', 0) + 1
            if 'mutate' in kinds:
                feats['seq_with_mutate'] = feats.get('seq_with_mutate', 0) + 1
            if 'pickle' in kinds:
                feats['seq_with_pickle'] = feats.get('seq_with_pickle', 0) + 1
            if kinds & {'fix', 'free', 'mutate', 'pickle'}:
                res['nontrivial_n'] = res.get('nontrivial_n', 0) + 1
            if err is not None:
                # an operation may only fail the way it fails on a fresh processor with the same fixed values
                s2 = Subject(spec, enc)
                for i, v in sorted(fixed.items()):
                    s2.gp.fix_des_var(s2.all_vars()[i], v)
                try:
                    apply_op(s2, err[0])
                    viol('operation-fails-only-after-history', dict(op=list(map(_j, err[0])), exc=err[1:]), seq)
                    return
                except Exception as e2:
                    if type(e2).__name__ != err[1]:
                        viol('operation-fails-differently-after-history', dict(op=list(map(_j, err[0])), exc=err[1:],
                                                                               fresh=type(e2).__name__), seq)
                        return
                continue
            try:
                obs = observe_subject(s)
                ref = reference_obs(spec, enc, fixed, ref_cache)
            except Exception as e:
                viol('observation-raised', dict(exc=(type(e).__name__, str(e)[:200])), seq)
                return
            if obs != ref:
                diff = {k: (obs[k], ref[k]) for k in obs if obs[k] != ref[k]}
                first_diff = None
                if 'table' in diff:
                    first_diff = [(a, b) for a, b in zip(obs['table'], ref['table']) if a != b][:1]
                viol('history-dependent-result', dict(differs=sorted(diff), first_table_difference=first_diff,
                                                      enum=(obs.get('enum'), ref.get('enum')) if 'enum' in diff else None), seq)
                return
            shared = check_instances(s)
            if shared:
                viol('instances-not-independent', shared, seq)
                return
    res['nontrivial'] = True
    res['sample'] = dict(name=case['name'], enc=enc, first_op=list(map(_j, first)), sequences=n_seq)


def _j(v):
    if isinstance(v, (np.integer,)):
        return int(v)
    if isinstance(v, (np.floating,)):
        return float(v)
    return v


# ------------------------------------------------------------------ configuration axis

def table_for_config(spec, enc, ids):
    t = sweep.decode_table(spec, enc, ids=ids, with_dv_key=True)
    if t.gp is None:
        return ('refused', t.refused, t.build_error)
    rows = [(r['x'], r.get('x_imp'), r.get('act'), r.get('key'), r['exc'] and r['exc'][0]) for r in t.rows]
    return dict(des_vars=[(dv.name, dv.n_opts if dv.is_discrete else tuple(dv.bounds)) for dv in t.des_vars], rows=rows)


ID_ASSIGNMENTS = [None, 'reversed', 'shuffled']


def ids_for(spec, which):
    n = 64
    if which is None:
        return None
    if which == 'reversed':
        return list(range(n, 0, -1))
    return [((i*37) % n)+1 for i in range(n)]   # a fixed permutation of 1..64 (37 is coprime with 64)


def config_child(spec_json):
    spec = json.loads(spec_json)
    env.install_inline_limiter()
    out = {}
    for enc in ('COMPLETE', 'FAST'):
        for which in ID_ASSIGNMENTS:
            out[f'{enc}/{which}'] = table_for_config(spec, enc, ids_for(spec, which))
    print('RESULT' + json.dumps(out, default=lambda o: o if not isinstance(o, (np.integer, np.floating)) else o.item()))


def run_config(case, res):
    spec = case['spec']
    feats = res['features']
    feats['config_axis'] = 1
    results = {}
    for hs in ('0', '1', '2'):
        envp = os.environ.copy()
        envp['PYTHONHASHSEED'] = hs
        code = "import sys, warnings; warnings.filterwarnings('ignore'); from vf.props import c05; c05.config_child(sys.argv[1])"
        r = subprocess.run([sys.executable, '-c', code, json.dumps(spec)], env=envp, capture_output=True, text=True)
        line = [l for l in r.stdout.splitlines() if l.startswith('RESULT')]
        res['evals'] += 1
        res['states'] += 6
        if r.returncode != 0 or not line:
            res['violations'].append(dict(kind='config-child-failed', case=dict(name=case['name'], spec=spec, hash_seed=hs),
                                          detail=dict(stderr=r.stderr[-400:])))
            return
        results[hs] = json.loads(line[0][6:])
    base = results['0']['COMPLETE/None']
    for hs, tabs in results.items():
        for label, tab in tabs.items():
            ref = results['0'][label.split('/')[0] + '/None']
            res['trans'] += 1
            if tab != ref:
                res['violations'].append(dict(kind='result-depends-on-hash-seed-or-node-ids',
                                              case=dict(name=case['name'], spec=spec, hash_seed=hs, config=label),
                                              detail=dict(note='decode table differs from hash seed 0 / default ids')))
                return
    res['nontrivial'] = True
    res['sample'] = dict(name=case['name'], kind='config', tables=len(results)*6)


def run_case(case):
    res = dict(evals=0, states=0, trans=0, nontrivial=False, features={}, violations=[])
    res['key'] = '%s/%s/%s/%s' % (case['name'], case.get('enc'), case.get('first'), case.get('depth'))
    spec = case['spec']
    if spec.get('cch'):
        res['features']['drv_conn'] = 1
    if spec.get('dv'):
        res['features']['drv_dv'] = 1
    if case['name'] == 'infeasible_comb':
        res['features']['drv_infeasible_comb'] = 1
    if case['kind'] == 'config':
        run_config(case, res)
    else:
        run_hist(case, res)
    return res
