"""
C14 -- the fast selection-choice encoder is sound and covers the design space.

E1: every spec of the scope, encoder FAST, every vector of the declared space: sound (decode in A(spec)),
onto (every reference architecture is decoded to; same set as the COMPLETE encoder where that works),
valid vectors unchanged.  E3 slice: the decode table is independent of which (up to two) other vectors
were decoded before, for every ordered pair of preceding decodes (small spaces).  E4: the automatic
fallback (complete analysis answered with TimeoutError / MemoryError by the scripted limiter) yields a
FAST processor with the same decode table.
"""
import itertools
from vf import refmodel, sweep, enumerate as en, families, proc, env
from vf.props import c01

LEVEL = 'model_checking'
RULE = ('case = canonical spec, FAST encoder; full decode table + all ordered pairs of preceding decodes (declared '
        'space <= 9 vectors) + 2 fallback scripts; non-trivial = spec with >= 2 reference architectures')
ASSUMPTIONS = ['completeness is judged on (node set, connection edges): every reference architecture must be some decode',
               'history slice limited to declared spaces of <= 9 vectors (counted in features when larger)']
CHUNK = 60
REQUIRED_FEATURES = {'*': ['multi_arch', 'zero_choice', 'history_pairs', 'fallback_checked', 'linked', 'incompat', 'conn_choice']}


def scope_text(tier):
    return ('SEL-q + CC-1q + CON-1q + DV-1q' if tier == 'quick' else 'SEL-t + CC-1t + CON-1t + DV-1t') + \
        '; encoder FAST (explicit and via injected timeout/memory error); full declared space'


def cases(tier, seed):
    for spec in en.scope_specs('SEL-q' if tier == 'quick' else 'SEL-t'):
        yield dict(spec=spec)
    for fam in (families.cc1, families.con1, families.con3, families.dv1, families.cyc, families.diamond, families.unr):
        for spec in fam(tier):
            yield dict(spec=spec)


def worker_init(tier, seed):
    env.install_inline_limiter()


def table_obs(t):
    return [(r['x'], r.get('x_imp'), r.get('act'), r.get('key'), r['exc'][0] if r['exc'] else None) for r in t.rows]


def run_case(case):
    spec = case['spec']
    res = dict(evals=0, states=1, trans=0, nontrivial=False, key=en.spec_id(spec), features={}, violations=[])
    feats = res['features']

    def viol(kind, detail, enc='FAST'):
        res['violations'].append(dict(kind=kind, case=dict(spec=spec, enc=enc), detail=detail))

    A = refmodel.arch_keys(spec)
    coarse = lambda k: (k[0], k[2])
    if len(A) >= 2:
        feats['multi_arch'] = 1
        res['nontrivial'] = True
    if not spec.get('choices'):
        feats['zero_choice'] = 1
    if any(c[0] == 'LINKED' for c in spec.get('cc', [])):
        feats['linked'] = 1
    if spec.get('incompat'):
        feats['incompat'] = 1
    if spec.get('cch'):
        feats['conn_choice'] = 1

    t = sweep.decode_table(spec, 'FAST')
    c01.check_table(spec, 'FAST', t, A, res, lambda k, d, e: viol(k, d, e))
    if t.gp is None or t.skipped_too_large or res['violations']:
        res['sample'] = dict(spec=spec)
        return res
    if str(t.gp.encoder_type.name) != 'FAST':
        viol('wrong-encoder-type', dict(got=str(t.gp.encoder_type)))
    # onto
    got = {coarse(r['key']) for r in t.rows if r['exc'] is None}
    ref = {coarse(k) for k in A}
    if A and got != ref:
        viol('not-onto', dict(missing=sorted(ref-got)[:3], extra=sorted(got-ref)[:3], n_ref=len(ref), n_got=len(got)))
    # valid vectors are returned unchanged
    valid = {r['x_imp'] for r in t.rows if r['exc'] is None}
    for r in t.rows:
        if r['exc'] is None and r['x'] in valid and r['x_imp'] != r['x']:
            viol('valid-vector-changed', dict(x=r['x'], x_imp=r['x_imp']))
            break
    # same set as the complete encoder
    tc = sweep.decode_table(spec, 'COMPLETE')
    if tc.gp is not None and not tc.skipped_too_large and not tc.build_error:
        gotc = {coarse(r['key']) for r in tc.rows if r['exc'] is None}
        res['evals'] += 1
        if gotc != got and gotc == ref:
            viol('differs-from-complete-encoder', dict(only_fast=sorted(got-gotc)[:3], only_complete=sorted(gotc-got)[:3]))

    # E3 slice: order independence
    base = table_obs(t)
    xs = [r['x'] for r in t.rows]
    if 1 < len(xs) <= 9:
        for pre in itertools.product(xs, repeat=2):
            feats['history_pairs'] = feats.get('history_pairs', 0) + 1
            t2 = sweep.decode_table(spec, 'FAST', space=[])
            t2.rows = []
            for y in pre:
                sweep.decode_row(t2, list(y))
            rows = [sweep.decode_row(t2, list(x)) for x in xs]
            res['trans'] += len(rows)+2
            t2.rows = rows
            if table_obs(t2) != base:
                diff = [(a, b) for a, b in zip(base, table_obs(t2)) if a != b][:1]
                viol('history-dependent-decode', dict(preceding=pre, first_difference=diff))
                break
    elif len(xs) > 9:
        feats['history_skipped_large'] = 1

    # E4: automatic fallback
    for k, exc in enumerate((TimeoutError, MemoryError)):
        with env.limiter(script={0: exc}) as lim:
            t3 = sweep.decode_table(spec, None)
        res['evals'] += 1
        feats['fallback_checked'] = feats.get('fallback_checked', 0) + 1
        if t3.gp is None:
            viol('fallback-failed', dict(script=exc.__name__, refused=t3.refused, error=t3.build_error))
            break
        if str(t3.gp.encoder_type.name) != 'FAST':
            viol('fallback-not-fast', dict(script=exc.__name__, got=str(t3.gp.encoder_type)))
            break
        if table_obs(t3) != base:
            viol('fallback-table-differs', dict(script=exc.__name__))
            break
    res['sample'] = dict(spec=spec, n_ref=len(A), space=len(xs))
    return res
