"""
C01 -- every design vector decodes to a valid architecture instance.

E1: every canonical spec of the scope x both selection-choice encoders x every vector of the
declared design space; oracle: decode returns, instance final and feasible, architecture in A(spec)
(independent reference model); an exception only if A(spec) is empty, and then an explicit one.
"""
from vf import refmodel, sweep, enumerate as en, families

LEVEL = 'model_checking'
RULE = ('case = canonical spec (selection grammar + connection/design-variable families) x encoder; every vector '
        'of the declared space is decoded; non-trivial = spec with >= 2 reference architectures; distinct = spec id')
ASSUMPTIONS = ['reference model A(spec) written from docs/theory.md (vf/refmodel.py), self-tested on its tables',
               'declared spaces > 4096 vectors are skipped and counted (caps_hit)']
CHUNK = 100
REQUIRED_FEATURES = {'*': ['multi_arch', 'empty_A', 'corrected_vector', 'cond_active', 'conn_choice', 'dv_node']}
ENCODERS = ['COMPLETE', 'FAST']


def scope_text(tier):
    return ('SEL-q + CC-1q + CON-1q + DV-1q' if tier == 'quick' else 'SEL-t + CC-1t + CON-1t + DV-1t') + \
        ' (see vf/enumerate.py SCOPES, vf/families.py); encoders COMPLETE and FAST; full declared space'


def cases(tier, seed):
    for spec in en.scope_specs('SEL-q' if tier == 'quick' else 'SEL-t'):
        yield dict(spec=spec)
    for fam in (families.cc1, families.con1, families.con3, families.dv1, families.cyc, families.diamond, families.unr):
        for spec in fam(tier):
            yield dict(spec=spec)


def check_table(spec, enc, t, A, res, viol):
    """The C01 oracle on one decode table."""
    feats = res['features']
    if t.build_error:
        viol('unexpected-exception', dict(where=t.build_error[0], exc=t.build_error[1:]), enc)
        return
    if t.refused:
        res['evals'] += 1
        if A:
            viol('refused-feasible-graph', dict(exc=t.refused, n_ref=len(A)), enc)
        return
    if t.skipped_too_large:
        res.setdefault('caps', {})['skipped_too_large'] = 1
        return
    if not A:
        # nothing admissible: construction should have refused, or every decode raises explicitly
        for row in t.rows:
            res['evals'] += 1
            if row['exc'] is None:
                viol('decoded-without-architecture', dict(x=row['x'], key=row.get('key')), enc)
                break
            if row['exc'][0] not in ('ValueError', 'RuntimeError'):
                viol('implicit-exception', dict(x=row['x'], exc=row['exc']), enc)
                break
        return
    for row in t.rows:
        res['evals'] += 1
        res['trans'] += 1
        if row['exc'] is not None:
            viol('decode-raised', dict(x=row['x'], exc=row['exc']), enc)
            break
        if tuple(row['x']) != tuple(row['x_imp']):
            feats['corrected_vector'] = feats.get('corrected_vector', 0) + 1
        if not all(row['act']):
            feats['cond_active'] = feats.get('cond_active', 0) + 1
        if not row['final'] or row['left']:
            viol('not-final', dict(x=row['x'], left=row['left']), enc)
            break
        if not row['feasible']:
            viol('not-feasible', dict(x=row['x'], key=row['key']), enc)
            break
        if row['key'] not in A:
            viol('not-admitted', dict(x=row['x'], key=row['key']), enc)
            break


def run_case(case):
    spec = case['spec']
    res = dict(evals=0, states=1, trans=0, nontrivial=False, key=en.spec_id(spec), features={}, violations=[])
    feats = res['features']

    def viol(kind, detail, enc):
        res['violations'].append(dict(kind=kind, case=dict(spec=spec, enc=enc), detail=detail))

    A = refmodel.arch_keys(spec)
    if len(A) >= 2:
        res['nontrivial'] = True
        feats['multi_arch'] = 1
    if not A:
        feats['empty_A'] = 1
    if spec.get('cch'):
        feats['conn_choice'] = 1
    if spec.get('dv'):
        feats['dv_node'] = 1
    for enc in (case.get('encs') or ENCODERS):
        t = sweep.decode_table(spec, enc)
        check_table(spec, enc, t, A, res, viol)
    res['sample'] = dict(spec=spec, n_ref_architectures=len(A))
    return res


def worker_init(tier, seed):
    from vf import env
    env.install_inline_limiter()
