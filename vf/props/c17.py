"""
C17 -- metrics are classified and evaluated according to the documented contract.

E1 on the MET-1 family (direction x reference x declared type x anchor, 1-2 metric nodes) x every architecture x 5
evaluator scripts (complete, one metric missing, NaN, empty, values for all design-space metric nodes incl. absent ones), through a DSGEvaluator subclass.
"""
import math
import itertools
from vf import refmodel, sweep, enumerate as en, families, env, build as vbuild, observe

LEVEL = 'model_checking'
RULE = ('case = one MET-1 spec: classification + evaluation of every architecture under 4 evaluator scripts; non-trivial = '
        'spec with at least one objective or constraint; distinct = spec id')
ASSUMPTIONS = ['decision table from docs/theory.md and the MetricNode docstring: objective needs a direction and a permanent node, '
               'constraint needs direction and reference, NONE = unused, both possible -> declared role, else error']
CHUNK = 20
REQUIRED_FEATURES = {'*': ['objective', 'constraint', 'ambiguous_rejected', 'absent_constraint', 'none_type']}


def scope_text(tier):
    return 'MET-1 family: 72 single-node configurations + %s pairs; all architectures; evaluator scripts complete/missing/NaN/empty' % \
        ('72x6' if tier == 'quick' else '72x72')


def cases(tier, seed):
    for spec in families.met1(tier):
        yield dict(spec=spec)


def worker_init(tier, seed):
    env.install_inline_limiter()


def expected_role(m, permanent):
    if m.get('type') == 'NONE':
        return 'none'
    can_obj = m.get('dir') is not None and permanent
    can_con = m.get('dir') is not None and m.get('ref') is not None
    if can_obj and can_con:
        if m.get('type') == 'OBJECTIVE':
            return 'obj'
        if m.get('type') == 'CONSTRAINT':
            return 'con'
        return 'error'
    if can_obj:
        return 'obj'
    if can_con:
        return 'con'
    return 'none'


def run_case(case):
    from adsg_core.optimization.evaluator import DSGEvaluator
    from adsg_core.optimization.hierarchy import SelChoiceEncoderType
    spec = case['spec']
    res = dict(evals=0, states=1, trans=0, nontrivial=False, key=en.spec_id(spec), features={}, violations=[])
    feats = res['features']

    def viol(kind, detail):
        res['violations'].append(dict(kind=kind, case=dict(spec=spec), detail=detail))

    b = vbuild.build(spec)
    perm, _, _ = refmodel.closure(dict(spec, choices=[]), {})
    roles = {name: expected_role(m, name in perm) for name, m in spec['met'].items()}
    names = sorted(spec['met'])
    exp_obj = [n for n in names if roles[n] == 'obj']
    exp_con = [n for n in names if roles[n] == 'con']
    if any(m.get('type') == 'NONE' for m in spec['met'].values()):
        feats['none_type'] = 1

    script = {'mode': 'complete'}

    class Ev(DSGEvaluator):
        def _evaluate(self, dsg, metric_nodes):
            out = {}
            if script['mode'] == 'all_nodes':   # ignores the argument: values for every metric node of the design space
                return {node: 10.+ord(node.name[-1]) for node in self.metric_nodes}
            for i, node in enumerate(sorted(metric_nodes, key=lambda n: n.name)):
                if script['mode'] == 'empty':
                    continue
                if script['mode'] == 'missing' and i == 0:
                    continue
                out[node] = math.nan if script['mode'] == 'nan' else 10.+ord(node.name[-1])
            return out

    ev = Ev(b.dsg, encoder_type=SelChoiceEncoderType.COMPLETE)
    res['evals'] += 1
    if 'error' in roles.values():
        feats['ambiguous_rejected'] = 1
        for attr in ('objectives', 'constraints'):
            try:
                getattr(ev, attr)
                viol('ambiguous-metric-accepted', dict(attr=attr, roles=roles))
                return res
            except RuntimeError:
                pass
            except Exception as e:
                viol('ambiguous-metric-wrong-exception', dict(attr=attr, exc=(type(e).__name__, str(e)[:200])))
                return res
        res['sample'] = dict(spec=spec, roles=roles)
        return res
    try:
        objs = [o.node.name for o in ev.objectives]
        cons = [c.node.name for c in ev.constraints]
    except Exception as e:
        viol('classification-raised', dict(exc=(type(e).__name__, str(e)[:200]), roles=roles))
        return res
    if objs != exp_obj or cons != exp_con:
        viol('classification-differs', dict(objectives=objs, constraints=cons, expected=(exp_obj, exp_con)))
        return res
    if objs:
        feats['objective'] = 1
    if cons:
        feats['constraint'] = 1
    res['nontrivial'] = bool(objs or cons)
    # directions / reference values are taken over
    for o in ev.objectives:
        if o.sign != (-1 if spec['met'][o.node.name]['dir'] <= 0 else 1):
            viol('objective-direction-wrong', dict(name=o.node.name, sign=o.sign))
    for c in ev.constraints:
        m = spec['met'][c.node.name]
        if c.ref != m['ref'] or c.sign != (-1 if m['dir'] <= 0 else 1):
            viol('constraint-definition-wrong', dict(name=c.node.name, ref=c.ref, sign=c.sign))

    archs = refmodel.selection_architectures(spec)
    for o in exp_obj:
        if any(o not in a['nodes'] for a in archs if a['admissible']):
            viol('objective-node-not-in-every-architecture', dict(name=o))
    dvs = ev.des_vars
    for x in itertools.product(*[range(dv.n_opts) for dv in dvs]):
        for mode in ('complete', 'missing', 'nan', 'empty', 'all_nodes'):
            script['mode'] = mode
            inst, x_imp, act = ev.get_graph(list(x))
            res['evals'] += 1
            res['trans'] += 1
            try:
                ov, cv = ev.evaluate(inst)
            except Exception as e:
                viol('evaluate-raised', dict(x=x, mode=mode, exc=(type(e).__name__, str(e)[:200])))
                return res
            present = sorted(b.name(n) for n in inst.metric_nodes)
            returned = {}
            for i, n in enumerate(present):
                if mode == 'empty' or (mode == 'missing' and i == 0):
                    continue
                returned[n] = math.nan if mode == 'nan' else 10.+ord(n[-1])   # 'all_nodes': same values for the present nodes
            if len(ov) != len(exp_obj) or len(cv) != len(exp_con):
                viol('wrong-number-of-values', dict(x=x, mode=mode, n_obj=len(ov), n_con=len(cv)))
                return res

            def same(a, e):
                return (isinstance(a, float) and math.isnan(a) and math.isnan(e)) or a == e
            for name, val in zip(exp_obj, ov):
                e = returned.get(name, math.nan)
                if not same(val, e):
                    viol('objective-value-wrong', dict(x=x, mode=mode, name=name, got=val, expected=repr(e)))
                    return res
            for name, val in zip(exp_con, cv):
                if name not in present:
                    feats['absent_constraint'] = feats.get('absent_constraint', 0) + 1
                    e = spec['met'][name]['ref']
                else:
                    e = returned.get(name, math.nan)
                if not same(val, e):
                    viol('constraint-value-wrong', dict(x=x, mode=mode, name=name, got=val, expected=repr(e),
                                                        present=name in present))
                    return res
            mv = {b.name(n): v for n, v in inst.metric_values.items()}
            for n in present:
                e = returned.get(n, math.nan)
                if n not in mv or not same(mv[n], e):
                    viol('instance-metric-values-wrong', dict(x=x, mode=mode, name=n, got=mv.get(n), expected=repr(e)))
                    return res
    res['sample'] = dict(spec=spec, roles=roles)
    return res
