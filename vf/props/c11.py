"""
C11 -- connection choices respect connectors in every existence scenario.

E2 + E1 on the CON-2 family.  Graph level: for every selection-resolved leaf of the derivation state graph (= every
existence scenario, reached through the real API) and every connection choice: the offered connection sets equal
the brute-force reference for the connectors present (each exactly once), the validity test agrees on every edge
multiset of the cube, applying a set yields exactly those connection edges (no exclusion edge, no choice node left).
Processor level (both encoders): infeasible scenarios are never decoded to, feasible ones are never lost,
the enumeration of the complete encoder equals the reference architectures.
"""
import itertools
from vf import refmodel, sweep, enumerate as en, families, build as vbuild, proc, env, e2, observe
from vf.props import c01
from adsg_core.graph.adsg_nodes import SelectionChoiceNode, ConnectionChoiceNode
from adsg_core.graph.graph_edges import EdgeType

LEVEL = 'model_checking'
RULE = ('case = one CON-2 spec: every existence scenario x every connection set + decode tables of both encoders; '
        'non-trivial = spec with >= 2 scenarios that differ in their valid connection sets; distinct = spec id')
ASSUMPTIONS = ['reference: brute-force matrices per scenario over the connectors present (vf/refmodel.py), grouping node = sums of '
               'present members, documented parallel-connection limit re-implemented',
               'validate_conn_edges is probed on the cube 0..L(i,j)+1 per present pair plus one edge to every absent node']
CHUNK = 10
REQUIRED_FEATURES = {'*': ['scenario_empty', 'scenario_multi', 'grouping', 'excluded', 'no_source_scenario', 'applied_sets']}


def scope_text(tier):
    return 'CON-2 family (vf/families.py con2, tier %s): skeletons one/indep/nested, 1-2 (3 in thorough) sources/targets, ' \
           'grouping nodes, exclusions; all scenarios; both encoders' % tier


def cases(tier, seed):
    seen = set()
    for spec in families.con2(tier):
        sid = en.spec_id(spec)
        if sid in seen:
            continue
        seen.add(sid)
        yield dict(spec=spec)


def worker_init(tier, seed):
    env.install_inline_limiter()


def _edge_key(b, edges):
    return tuple(sorted((b.name(s), b.name(t)) for s, t in edges))


def check_scenario(spec, b, inst, X, res, viol):
    feats = res['features']
    for cch in spec['cch']:
        kid, srcs, tgts, excl = cch
        exists, ref = refmodel.connection_sets(spec, cch, X)
        node = b.cchoices[kid]
        present = node in inst.graph.nodes
        res['evals'] += 1
        if exists != present:
            viol('connection-choice-existence-wrong', dict(scenario=sorted(X), choice=kid, expected=exists, got=present))
            return
        if not exists:
            feats['no_source_scenario'] = feats.get('no_source_scenario', 0) + 1
            if bool(inst.feasible) != bool(ref):
                viol('feasible-flag-wrong-without-sources', dict(scenario=sorted(X), feasible=bool(inst.feasible)))
            continue
        if len(ref) == 0:
            feats['scenario_empty'] = feats.get('scenario_empty', 0) + 1
        if len(ref) >= 2:
            feats['scenario_multi'] = feats.get('scenario_multi', 0) + 1
        try:
            offered = [_edge_key(b, es) for es in node.iter_conn_edges(inst)]
        except Exception as e:
            viol('iter-conn-edges-raised', dict(scenario=sorted(X), exc=(type(e).__name__, str(e)[:200])))
            return
        res['trans'] += len(offered)
        if len(set(offered)) != len(offered):
            viol('connection-set-offered-twice', dict(scenario=sorted(X), n=len(offered), distinct=len(set(offered))))
            return
        if set(offered) != ref:
            viol('offered-sets-differ', dict(scenario=sorted(X), missing=sorted(ref-set(offered))[:3],
                                             extra=sorted(set(offered)-ref)[:3], n_ref=len(ref), n_got=len(offered)))
            return
        # validity test on the cube
        ps = [s for s in srcs if s in X]
        pt = [t for t in tgts if t in X]
        src = [refmodel.node_allowed(spec, s, X) for s in ps]
        tgt = [refmodel.node_allowed(spec, t, X) for t in pt]
        fin = [max(l) for l, _, _ in src+tgt if l]
        pmax = max([2]+fin)
        ranges = []
        pairs = []
        for s, sn in zip(ps, src):
            for t, tn in zip(pt, tgt):
                cap = pmax if (sn[2] and tn[2]) else 1
                for l, _, _ in (sn, tn):
                    if l is not None:
                        cap = min(cap, max(l) if l else 0)
                if [s, t] in [list(e) for e in excl]:
                    cap = 0
                pairs.append((s, t))
                ranges.append(range(0, min(cap+1, 3)+1))
        n_cube = 1
        for r in ranges:
            n_cube *= len(r)
        if n_cube <= 4096:
            for vals in itertools.product(*ranges):
                edges = []
                for (s, t), v in zip(pairs, vals):
                    edges += [(b.nodes[s], b.nodes[t])]*v
                res['trans'] += 1
                ok = bool(node.validate_conn_edges(inst, edges)) if edges else None
                if ok is None:
                    continue  # the empty set is applied without validation by the API (validate only if len(edges) > 0)
                if ok != (_edge_key(b, edges) in ref):
                    viol('validate-conn-edges-differs', dict(scenario=sorted(X), edges=_edge_key(b, edges), got=ok))
                    return
        else:
            res.setdefault('caps', {})['cube_too_large'] = 1
        # edges to absent connectors are never valid
        for a in [s for s in srcs if s not in X and s in b.nodes and pt][:1]:
            if node.validate_conn_edges(inst, [(b.nodes[a], b.nodes[pt[0]])]):
                viol('edge-from-absent-connector-valid', dict(scenario=sorted(X), node=a))
                return
        for a in [t for t in tgts if t not in X and t in b.nodes and ps][:1]:
            if node.validate_conn_edges(inst, [(b.nodes[ps[0]], b.nodes[a])]):
                viol('edge-to-absent-connector-valid', dict(scenario=sorted(X), node=a))
                return
        # applying every set
        for es in sorted(ref):
            edges = [(b.nodes[s], b.nodes[t]) for s, t in es]
            try:
                applied = inst.get_for_apply_connection_choice(node, edges)
            except Exception as e:
                viol('apply-connection-set-raised', dict(scenario=sorted(X), edges=es, exc=(type(e).__name__, str(e)[:200])))
                return
            feats['applied_sets'] = feats.get('applied_sets', 0) + 1
            res['trans'] += 1
            got = observe.inst_edges(b, applied, EdgeType.CONNECTS)
            # only the edges of THIS choice: other choices' CONNECTS edges go through their choice nodes
            got = tuple(sorted(e for e in got if e[0] not in b.cchoices and e[1] not in b.cchoices))
            if got != tuple(sorted(es)):
                viol('applied-edges-differ', dict(scenario=sorted(X), edges=es, got=got))
                return
            if observe.inst_edges(b, applied, EdgeType.EXCLUDES) and len(spec['cch']) == 1:
                viol('exclusion-edge-left', dict(scenario=sorted(X), edges=es))
                return
            if node in applied.graph.nodes:
                viol('choice-node-left', dict(scenario=sorted(X), edges=es))
                return
            if len(spec['cch']) == 1 and not (applied.final and applied.feasible):
                viol('applied-instance-not-final-feasible', dict(scenario=sorted(X), edges=es, final=bool(applied.final),
                                                                 feasible=bool(applied.feasible)))
                return


def run_case(case):
    spec = case['spec']
    res = dict(evals=0, states=0, trans=0, nontrivial=False, key=en.spec_id(spec), features={}, violations=[])
    feats = res['features']

    def viol(kind, detail, enc=None):
        c = dict(spec=spec) if enc is None else dict(spec=spec, enc=enc)
        res['violations'].append(dict(kind=kind, case=c, detail=detail))

    if spec.get('grp'):
        feats['grouping'] = 1
    if any(c[3] for c in spec['cch']):
        feats['excluded'] = 1
    try:
        b = vbuild.build(spec)
    except Exception as e:
        viol('build-raised', dict(exc=(type(e).__name__, str(e)[:200])))
        return res
    sel = [a for a in refmodel.selection_architectures(spec) if a['admissible']]
    by_nodes = {a['nodes']: a for a in sel}
    states, n_trans, leaves, capped = e2.explore(b, max_states=2000)
    res['states'] += len(states)
    res['trans'] += n_trans
    seen_scen = set()
    for lf in leaves:
        X = frozenset(n for n in observe.inst_nodes(b, lf.dsg))
        if X in seen_scen:
            continue
        seen_scen.add(X)
        if X not in by_nodes:
            continue  # C02's business
        if any(isinstance(n, SelectionChoiceNode) for n in lf.dsg.graph.nodes):
            continue
        check_scenario(spec, b, lf.dsg, X, res, viol)
        if res['violations']:
            break
    sizes = set()
    for a in sel:
        sizes.add(tuple(frozenset(refmodel.connection_sets(spec, c, a['nodes'])[1]) for c in spec['cch']))
    res['nontrivial'] = len(sizes) >= 2
    if not seen_scen >= set(by_nodes):
        viol('scenario-not-reached', dict(missing=[sorted(x) for x in set(by_nodes)-seen_scen][:2]))

    # processor level
    if not res['violations']:
        A = refmodel.arch_keys(spec)
        coarse = lambda k: (k[0], k[2])
        for enc in ('COMPLETE', 'FAST'):
            t = sweep.decode_table(spec, enc)
            c01.check_table(spec, enc, t, A, res, lambda k, d, e: viol(k, d, e))
            if t.gp is None or t.skipped_too_large:
                continue
            got = {coarse(r['key']) for r in t.rows if r['exc'] is None and 'key' in r}
            ref = {coarse(k) for k in A}
            if A and got != ref and not any(v['case'].get('enc') == enc for v in res['violations']):
                viol('scenario-or-set-lost', dict(missing=sorted(ref-got)[:3], extra=sorted(got-ref)[:3],
                                                  n_ref=len(ref), n_got=len(got)), enc)
            if enc == 'COMPLETE' and not any(v['case'].get('enc') == enc for v in res['violations']):
                proc.check_c04(spec, t, res, lambda k, d, e: viol(k, d, e), proc.reference_dv_keys(spec))
    res['sample'] = dict(spec=spec, scenarios=len(seen_scen))
    return res
