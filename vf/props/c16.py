"""
C16 -- design-variable nodes receive in-range values exactly when they exist.

E1 on the DV-2 family x both encoders x (declared space of the selection variables) x (value alphabet per design-variable
variable: far below, -1, lower, interior, non-integer, upper, n_opts, far above), with and without materialising the
instance; and the same alphabet through DSG.set_des_var_value directly.
"""
import itertools
import math
from vf import refmodel, sweep, enumerate as en, families, proc, env, build as vbuild, observe

LEVEL = 'model_checking'
RULE = ('case = one DV-2 spec: both encoders x every selection vector x every value of the alphabet for every design-variable '
        'variable (+ create=False) + direct setter; non-trivial = spec with a conditionally existing design-variable node')
ASSUMPTIONS = ['clamping of a discrete value v is to int(v) limited to 0..n-1 (documented: "clamped to its option range"); the '
               'non-integer probe only demands that the stored and reported value is an integer index inside the range']
CHUNK = 20
REQUIRED_FEATURES = {'*': ['cond_dv', 'absent_dv', 'clamped', 'linked', 'direct_set']}


def scope_text(tier):
    return 'DV-2 family (%s skeletons, 1-2 dv nodes, 5 kinds, all anchors, with/without LINKED); 8-value alphabet per dv variable' % \
        ('3' if tier == 'quick' else '5')


def cases(tier, seed):
    for spec in families.dv2(tier):
        yield dict(spec=spec)


def worker_init(tier, seed):
    env.install_inline_limiter()


def alphabet(dv):
    if dv.is_discrete:
        n = dv.n_opts
        return [-7, -1, 0, 0.6, n-1, n, n+5] + ([1] if n > 2 else [])
    lo, hi = dv.bounds
    return [lo-9.5, lo-1e-9, lo, lo+.37*(hi-lo), hi, hi+1e-9, hi+12.]


def clamp(dspec, v):
    if 'options' in dspec:
        return min(max(int(v), 0), dspec['options']-1)
    lo, hi = dspec['bounds']
    return min(max(float(v), lo), hi)


def in_domain(dspec, v):
    if 'options' in dspec:
        return float(v) == int(v) and 0 <= int(v) < dspec['options']
    lo, hi = dspec['bounds']
    return lo <= v <= hi


def run_case(case):
    spec = case['spec']
    res = dict(evals=0, states=1, trans=0, nontrivial=False, key=en.spec_id(spec), features={}, violations=[])
    feats = res['features']

    def viol(kind, detail, enc=None):
        c = dict(spec=spec) if enc is None else dict(spec=spec, enc=enc)
        res['violations'].append(dict(kind=kind, case=c, detail=detail))

    dvspec = spec['dv']
    linked = bool(spec.get('cc'))
    if linked:
        feats['linked'] = 1
    sel = [a for a in refmodel.selection_architectures(spec) if a['admissible']]
    if any(any(n not in a['nodes'] for n in dvspec) for a in sel):
        feats['cond_dv'] = 1
        res['nontrivial'] = True

    # --- direct setter on the graph
    b = vbuild.build(spec)
    for name, d in dvspec.items():
        node = b.nodes[name]
        vals = [-7, -1, 0, 0.6, d['options']-1, d['options'], d['options']+5] if 'options' in d else \
            [d['bounds'][0]-9.5, d['bounds'][0], d['bounds'][0]+.37*(d['bounds'][1]-d['bounds'][0]), d['bounds'][1], d['bounds'][1]+12.]
        for v in vals:
            g = b.dsg.copy()
            try:
                g.set_des_var_value(node, v)
            except Exception as e:
                viol('set-des-var-value-raised', dict(node=name, value=v, exc=(type(e).__name__, str(e)[:200])))
                break
            feats['direct_set'] = feats.get('direct_set', 0) + 1
            res['evals'] += 1
            res['trans'] += 1
            stored = g.des_var_values
            for n2, val in stored.items():
                n2name = b.name(n2)
                if not in_domain(dvspec[n2name], val):
                    viol('stored-value-outside-domain', dict(set_on=name, value=v, node=n2name, stored=val))
                    break
            else:
                continue
            break

    # --- through the processor
    for enc in ('COMPLETE', 'FAST'):
        t = sweep.decode_table(spec, enc, space=[])
        t.rows = []
        if t.gp is None:
            viol('processor-refused', dict(refused=t.refused, err=t.build_error), enc)
            continue
        owners = [proc.var_owner(t, dv) for dv in t.des_vars]
        sel_space = [list(range(dv.n_opts)) if o[0] != 'dv' else [None] for dv, o in zip(t.des_vars, owners)]
        dv_idx = [i for i, o in enumerate(owners) if o[0] == 'dv']
        n_followers = sum(1 for n in dvspec if refmodel._is_linked_follower(spec, n))
        if len(dv_idx) != len(dvspec)-n_followers:
            viol('wrong-number-of-dv-variables', dict(n_vars=len(dv_idx), n_nodes=len(dvspec), linked=linked), enc)
            continue
        for base in itertools.product(*sel_space):
            for combo in itertools.product(*[alphabet(t.des_vars[i]) for i in dv_idx]):
                x = list(base)
                for i, v in zip(dv_idx, combo):
                    x[i] = v
                res['evals'] += 1
                res['trans'] += 2
                row = sweep.decode_row(t, x, with_dv_key=True)
                row0 = sweep.decode_row(t, x, create=False)
                if row['exc'] is not None or row0['exc'] is not None:
                    viol('decode-raised', dict(x=x, exc=row['exc'] or row0['exc']), enc)
                    break
                if row['x_imp'] != row0['x_imp'] or row['act'] != row0['act']:
                    viol('create-flag-changes-result', dict(x=x, with_graph=(row['x_imp'], row['act']),
                                                             without=(row0['x_imp'], row0['act'])), enc)
                    break
                nodes = set(row['key'][0])
                stored = dict(row['dv_values'])
                bad = False
                for i in dv_idx:
                    name = owners[i][1]
                    d = dvspec[name]
                    dv = t.des_vars[i]
                    exists = name in nodes
                    if exists != row['act'][i]:
                        viol('existence-and-activeness-differ', dict(x=x, node=name, exists=exists, active=row['act'][i]), enc)
                        bad = True
                        break
                    if not exists:
                        feats['absent_dv'] = feats.get('absent_dv', 0) + 1
                        if name in stored:
                            viol('value-stored-for-absent-node', dict(x=x, node=name), enc)
                            bad = True
                        elif abs(row['x_imp'][i] - proc.canonical_inactive(dv)) > 1e-12:
                            viol('inactive-not-canonical', dict(x=x, x_imp=row['x_imp'], node=name), enc)
                            bad = True
                        if bad:
                            break
                        continue
                    if name not in stored:
                        viol('existing-node-without-value', dict(x=x, node=name), enc)
                        bad = True
                        break
                    exp = clamp(d, x[i])
                    if exp != x[i]:
                        feats['clamped'] = feats.get('clamped', 0) + 1
                    val = stored[name]
                    if not in_domain(d, val) or abs(val-exp) > 1e-12 or abs(row['x_imp'][i]-val) > 1e-12:
                        viol('value-not-clamped-stored-reported', dict(x=x, node=name, given=x[i], expected=exp, stored=val,
                                                                       reported=row['x_imp'][i]), enc)
                        bad = True
                        break
                # every existing dv node (also linked followers) holds a value inside its domain
                if not bad:
                    for name, d in dvspec.items():
                        if name in nodes:
                            if name not in stored:
                                if refmodel._is_linked_follower(spec, name) and not any(
                                        m in nodes for m in spec['cc'][0][1] if m != name):
                                    viol('existing-linked-node-without-value', dict(x=x, node=name), enc)
                                    bad = True
                                    break
                            elif not in_domain(d, stored[name]):
                                viol('stored-value-outside-domain', dict(x=x, node=name, stored=stored[name]), enc)
                                bad = True
                                break
                        elif name in stored and not linked:
                            viol('value-stored-for-absent-node', dict(x=x, node=name), enc)
                            bad = True
                            break
                if bad:
                    break
            if res['violations'] and res['violations'][-1]['case'].get('enc') == enc:
                break
    res['sample'] = dict(spec=spec)
    return res
