"""
C09 -- connection-set enumeration is exact.

E1 (bounded-exhaustive inputs) at AggregateAssignmentMatrixGenerator level: every setting of the
scope x every node-existence pattern x {no exclusion, each single excluded pair}; oracle = brute
force over the per-pair limit cube (vf.refmodel.valid_matrices).
"""
import itertools
import numpy as np

from vf import refmodel

LEVEL = 'model_checking'
RULE = ('case = (source types, target types) over the degree alphabet x {rep, no-rep}; each case is explored '
        'under every exclusion variant (none / each single pair) and every 2^(n_src+n_tgt) existence pattern; '
        'non-trivial = a (setting, exclusion, pattern) whose reference set has >= 2 matrices; distinct by construction')
ASSUMPTIONS = [
    'reference = brute force over integer matrices 0<=m_ij<=L(i,j) with row/column sums in the allowed degrees; '
    'L(i,j) re-implements the documented parallel-connection limit (max(2, largest finite degree present))',
    'validate_matrix is probed on the cube 0..L(i,j)+1 per cell (one above every limit), not on all integers',
]
CHUNK = 40
REQUIRED_FEATURES = {'*': ['pattern_empty_set', 'pattern_multi', 'excluded', 'open_ended', 'absent_node', 'history_filtered_first', 'single_pattern_empty']}

D_QUICK = ['1', '0..1', '1..2', '0,2', '2', '0..*', '1..*']
TYPES = [(d, r) for d in D_QUICK for r in (False, True)]
SUB6 = [('1', False), ('0..1', False), ('0..*', True), ('1..*', False), ('0,2', True), ('1..2', True)]
SUB4 = [('1', False), ('0..1', True), ('1..*', True), ('0,2', True)]
OVERRIDES = [None, [0, 1], [1, 2], [2, 3], [0, 2]]


def scope_text(tier):
    if tier == 'quick':
        return ('all 1x1, 1x2, 2x1 settings over 14 types (ordered); 2x2 over unordered source pair x unordered '
                'target pair of 14 types; all existence patterns; exclusions none + each single pair; degree-override (grouping) '
                'variants on 1x2/2x1/2x2 over a 4-type sub-alphabet x 4 override lists')
    return ('quick scope with ORDERED 2x2 over 14 types, plus 2x3/3x2 over a 6-type and 3x3 over a 4-type '
            'sub-alphabet, plus degree-override (grouping) variants on 1x2/2x1/2x2 over the 6-type sub-alphabet')


def cases(tier, seed):
    T = TYPES
    for s in T:
        for t in T:
            yield dict(src=[s], tgt=[t])
    for s in T:
        for t in itertools.product(T, repeat=2):
            yield dict(src=[s], tgt=list(t))
            yield dict(src=list(t), tgt=[s])
    if tier == 'quick':
        pairs = list(itertools.combinations_with_replacement(T, 2))
    else:
        pairs = list(itertools.product(T, repeat=2))
    for s in pairs:
        for t in pairs:
            yield dict(src=list(s), tgt=list(t))
    if tier == 'quick':
        # grouping-style degree overrides per existence pattern (thorough: over the 6-type sub-alphabet, below)
        for ns, nt in ((1, 2), (2, 1), (2, 2)):
            for s in itertools.product(SUB4, repeat=ns):
                for t in itertools.product(SUB4, repeat=nt):
                    for ov in OVERRIDES[1:]:
                        yield dict(src=list(s), tgt=list(t), src_override={0: ov})
                        yield dict(src=list(s), tgt=list(t), tgt_override={nt-1: ov})
    if tier != 'quick':
        for s in itertools.product(SUB6, repeat=2):
            for t in itertools.combinations_with_replacement(SUB6, 3):
                yield dict(src=list(s), tgt=list(t))
                yield dict(src=list(t), tgt=list(s))
        for s in itertools.combinations_with_replacement(SUB4, 3):
            for t in itertools.combinations_with_replacement(SUB4, 3):
                yield dict(src=list(s), tgt=list(t), cube_cap=1)
        # grouping-style degree overrides per existence pattern
        for ns, nt in ((1, 2), (2, 1), (2, 2)):
            for s in itertools.product(SUB6, repeat=ns):
                for t in itertools.product(SUB6, repeat=nt):
                    for ov in OVERRIDES[1:]:
                        yield dict(src=list(s), tgt=list(t), src_override={0: ov})
                        yield dict(src=list(s), tgt=list(t), tgt_override={nt-1: ov})


def _node(t):
    from adsg_core.optimization.assign_enc.matrix import Node
    lst, mn = refmodel.DEG[t[0]]
    if lst is not None:
        return Node(list(lst), repeated_allowed=t[1])
    return Node(min_conn=mn, repeated_allowed=t[1])


def _ref_node(t, override=None):
    lst, mn = refmodel.DEG[t[0]]
    if override is not None:
        return (list(override), None, t[1])
    return (lst, mn, t[1])


def _expand(mat, ps, pt, n, m):
    full = [[0]*m for _ in range(n)]
    for a, i in enumerate(ps):
        for b, j in enumerate(pt):
            full[i][j] = mat[a][b]
    return tuple(tuple(r) for r in full)


def reference(case, excl, src_ex, tgt_ex):
    n, m = len(case['src']), len(case['tgt'])
    ps = [i for i in range(n) if src_ex[i]]
    pt = [j for j in range(m) if tgt_ex[j]]
    so = {int(k): v for k, v in (case.get('src_override') or {}).items()}
    to = {int(k): v for k, v in (case.get('tgt_override') or {}).items()}
    src = [_ref_node(case['src'][i], so.get(i)) for i in ps]
    tgt = [_ref_node(case['tgt'][j], to.get(j)) for j in pt]
    ex = {(ps.index(i), pt.index(j)) for i, j in excl if i in ps and j in pt}
    mats = refmodel.valid_matrices(src, tgt, ex)
    return {_expand(mt, ps, pt, n, m) for mt in mats}


def _limits(case, excl, src_ex, tgt_ex):
    """Per-cell probing bound for validate_matrix: one above the reference limit."""
    n, m = len(case['src']), len(case['tgt'])
    so = {int(k): v for k, v in (case.get('src_override') or {}).items()}
    to = {int(k): v for k, v in (case.get('tgt_override') or {}).items()}
    present = [_ref_node(case['src'][i], so.get(i)) for i in range(n) if src_ex[i]] + \
              [_ref_node(case['tgt'][j], to.get(j)) for j in range(m) if tgt_ex[j]]
    fin = [max(l) for l, _, _ in present if l]
    pmax = max([2]+fin)
    lim = np.zeros((n, m), dtype=int)
    for i in range(n):
        for j in range(m):
            if not (src_ex[i] and tgt_ex[j]) or (i, j) in excl:
                lim[i, j] = 0
                continue
            s, t = _ref_node(case['src'][i], so.get(i)), _ref_node(case['tgt'][j], to.get(j))
            cap = pmax if (s[2] and t[2]) else 1
            for l, _, _ in (s, t):
                if l is not None:
                    cap = min(cap, max(l) if l else 0)
            lim[i, j] = cap
    return lim


def run_case(case):
    from adsg_core.optimization.assign_enc.matrix import (
        MatrixGenSettings, NodeExistence, NodeExistencePatterns, AggregateAssignmentMatrixGenerator)

    n, m = len(case['src']), len(case['tgt'])
    so = {int(k): v for k, v in (case.get('src_override') or {}).items()}
    to = {int(k): v for k, v in (case.get('tgt_override') or {}).items()}
    res = dict(evals=0, states=0, trans=0, nontrivial=False, features={}, violations=[])
    feats = res['features']
    nontriv = 0

    def viol(kind, detail, excl, pat=None):
        res['violations'].append(dict(kind=kind, case=dict(case, excl=[list(e) for e in excl],
                                                            pattern=pat), detail=detail))

    excl_variants = [[]] + [[(i, j)] for i in range(n) for j in range(m)]
    if n*m > 4:
        excl_variants = excl_variants[:1+min(3, n*m)]
    pats = list(itertools.product(itertools.product([True, False], repeat=n),
                                  itertools.product([True, False], repeat=m)))
    for excl in excl_variants:
        src_nodes = [_node(t) for t in case['src']]
        tgt_nodes = [_node(t) for t in case['tgt']]
        existences = []
        for se, te in pats:
            existences.append(NodeExistence(src_exists=list(se), tgt_exists=list(te),
                                            src_n_conn_override={k: list(v) for k, v in so.items() if se[k]} or None,
                                            tgt_n_conn_override={k: list(v) for k, v in to.items() if te[k]} or None))
        try:
            settings = MatrixGenSettings(src_nodes, tgt_nodes, excluded=[(src_nodes[i], tgt_nodes[j]) for i, j in excl],
                                         existence=NodeExistencePatterns(patterns=existences))
            gen = AggregateAssignmentMatrixGenerator(settings)
            count_cold_sum = gen.count_all_matrices(max_by_existence=False)
            count_cold_max = gen.count_all_matrices(max_by_existence=True)
            agg = gen.get_agg_matrix(cache=True)
            gen2 = AggregateAssignmentMatrixGenerator(settings)
            agg_warm = gen2.get_agg_matrix(cache=True)
            count_warm_sum = gen2.count_all_matrices(max_by_existence=False)
        except Exception as e:
            viol('exception', f'{type(e).__name__}: {e}', excl)
            continue
        if excl:
            feats['excluded'] = feats.get('excluded', 0) + 1

        sizes = []
        for (se, te), existence in zip(pats, existences):
            res['evals'] += 1
            res['states'] += 1
            pat = [list(se), list(te)]
            ref = reference(case, excl, se, te)
            sizes.append(len(ref))
            if len(ref) >= 2:
                nontriv += 1
                feats['pattern_multi'] = feats.get('pattern_multi', 0) + 1
            if len(ref) == 0:
                feats['pattern_empty_set'] = feats.get('pattern_empty_set', 0) + 1
            if not all(se) or not all(te):
                feats['absent_node'] = feats.get('absent_node', 0) + 1
            if any(refmodel.DEG[t[0]][0] is None for t in case['src']+case['tgt']):
                feats['open_ended'] = feats.get('open_ended', 0) + 1

            got_arr = agg.get(existence)
            if got_arr is None:
                viol('missing-pattern', 'pattern not in aggregate matrix map', excl, pat)
                continue
            got = [tuple(tuple(int(v) for v in row) for row in mat) for mat in got_arr]
            res['trans'] += len(got)
            if len(set(got)) != len(got):
                viol('duplicate-matrix', dict(n=len(got), distinct=len(set(got))), excl, pat)
            if set(got) != ref:
                viol('enumeration-differs', dict(missing=sorted(ref-set(got))[:5], extra=sorted(set(got)-ref)[:5],
                                                 n_ref=len(ref), n_got=len(set(got))), excl, pat)
            warm = agg_warm.get(existence)
            if warm is None or warm.shape != got_arr.shape or not np.array_equal(warm, got_arr):
                viol('warm-cache-differs', 'aggregate matrix from disk cache differs from fresh', excl, pat)
            it = [tuple(tuple(int(v) for v in row) for row in mat) for mat, _ in gen.iter_matrices(existence)]
            if sorted(it) != sorted(got):
                viol('iter-matrices-differs', dict(n_iter=len(it), n_agg=len(got)), excl, pat)

            # validity test on the cube (one above each per-pair limit)
            lim = _limits(case, excl, se, te)
            cap = case.get('cube_cap')
            ranges = [range(0, (min(lim[i, j]+1, cap) if cap is not None else lim[i, j]+1)+1)
                      for i in range(n) for j in range(m)]
            bad = []
            for vals in itertools.product(*ranges):
                matrix = np.array(vals, dtype=int).reshape(n, m)
                tup = tuple(tuple(int(v) for v in row) for row in matrix)
                res['trans'] += 1
                ok = bool(gen.validate_matrix(matrix, existence=existence))
                if ok != (tup in ref):
                    bad.append((tup, ok))
                    if len(bad) >= 3:
                        break
            if bad:
                viol('validate-differs', dict(examples=bad), excl, pat)

        # history variants (E3 slice): a filtered iteration over ONE pattern is the first thing that touches the cold
        # caches of these settings; everything enumerated / counted afterwards must still be complete
        probe = [i for i, sz in enumerate(sizes) if sz > 0][:1] + [len(pats)-1]
        for ip in sorted(set(probe)):
            try:
                gen.reset_agg_matrix_cache()
                g3 = AggregateAssignmentMatrixGenerator(settings)
                first = [tuple(tuple(int(v) for v in row) for row in mat) for mat, _ in g3.iter_matrices(existences[ip])]
                g4 = AggregateAssignmentMatrixGenerator(settings)
                cnt = g4.count_all_matrices(max_by_existence=False)
                agg4 = g4.get_agg_matrix(cache=True)
                it_all = {}
                for mat, ex_ in AggregateAssignmentMatrixGenerator(settings).iter_matrices():
                    it_all.setdefault(ex_, []).append(mat)
            except Exception as e:
                viol('exception-after-filtered-iteration', f'{type(e).__name__}: {e}', excl, [list(pats[ip][0]), list(pats[ip][1])])
                break
            res['evals'] += 1
            feats['history_filtered_first'] = feats.get('history_filtered_first', 0) + 1
            ref_ip = reference(case, excl, pats[ip][0], pats[ip][1])
            bad_hist = None
            if set(first) != ref_ip or len(first) != len(set(first)):
                bad_hist = dict(step='filtered iteration', n=len(first), n_ref=len(ref_ip))
            elif int(cnt) != sum(sizes):
                bad_hist = dict(step='count after filtered iteration', got=int(cnt), expected=sum(sizes))
            else:
                for (se, te), existence, sz in zip(pats, existences, sizes):
                    a4 = agg4.get(existence)
                    if a4 is None or a4.shape[0] != sz or len(it_all.get(existence, [])) != sz:
                        bad_hist = dict(step='enumeration after filtered iteration', pattern=[list(se), list(te)],
                                        agg=None if a4 is None else int(a4.shape[0]), iterated=len(it_all.get(existence, [])),
                                        expected=sz)
                        break
            if bad_hist:
                viol('history-dependent-enumeration', bad_hist, excl, [list(pats[ip][0]), list(pats[ip][1])])
                break

        for name, val, exp in (('count-cold-sum', count_cold_sum, sum(sizes)),
                               ('count-cold-max', count_cold_max, max(sizes)),
                               ('count-warm-sum', count_warm_sum, sum(sizes))):
            res['evals'] += 1
            if int(val) != exp:
                viol(name, dict(got=int(val), expected=exp, sizes=sizes), excl)

        # the same setting WITHOUT existence patterns (all connectors always exist): counting on a cold generator must
        # give the size of the single pattern, also if that is zero
        if not so and not to:
            try:
                clear = MatrixGenSettings(src_nodes, tgt_nodes, excluded=[(src_nodes[i], tgt_nodes[j]) for i, j in excl])
                g0 = AggregateAssignmentMatrixGenerator(clear)
                got = (int(g0.count_all_matrices(max_by_existence=True)), int(g0.count_all_matrices(max_by_existence=False)))
            except Exception as e:
                got = ('EXC', f'{type(e).__name__}: {e}')
            res['evals'] += 1
            full = len(reference(case, excl, tuple([True]*n), tuple([True]*m)))
            feats['single_pattern_count'] = feats.get('single_pattern_count', 0) + 1
            if full == 0:
                feats['single_pattern_empty'] = feats.get('single_pattern_empty', 0) + 1
            if got != (full, full):
                viol('count-single-pattern', dict(got=got, expected=full), excl)

    res['nontrivial'] = nontriv > 0
    res['features']['nontrivial_patterns'] = nontriv
    res['sample'] = dict(case=case, n_exclusion_variants=len(excl_variants), n_patterns=len(pats))
    return res


def collect(extra, res):
    extra['nontrivial_patterns'] = extra.get('nontrivial_patterns', 0) + res.get('features', {}).get('nontrivial_patterns', 0)
