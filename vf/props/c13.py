"""
C13 -- choice constraints admit exactly the documented index combinations.

(a) E1 + E2 on the CC-1 family (constraint type x 2-3 choices x 2-4 options x placements): feasible leaves of the
    complete derivation state graph, decode tables of both encoders and the enumeration rows of the complete
    encoder are compared with the reference set computed from the documented index predicates.
(b) the pure index functions exhaustively over all small inputs.
(c) linked design-variable nodes: same option index / same relative position, at graph and processor level.
"""
import itertools
import numpy as np
from vf import refmodel, sweep, enumerate as en, families, build as vbuild, proc, env
from vf.props import c02, c01

LEVEL = 'model_checking'
RULE = ('case = one CC-1 spec (state graph + both decode tables + enumeration) | one pure-function input class | one '
        'linked-dv spec; non-trivial = constrained spec whose constraint removes at least one assignment and keeps at least one')
ASSUMPTIONS = ['option index = position in the option list at registration time; choice order = decision-id order',
               'UNORDERED_NOREPL with is_all_permanent=True is documented in the code as non-decreasing over the pre-reduced '
               'option lists; the pure-function oracle follows that documentation']
CHUNK = 4
REQUIRED_FEATURES = {'*': ['cc_spec', 'pure', 'dvlink', 'unsatisfiable', 'mutex_placement']}
TYPES = ['LINKED', 'PERMUTATION', 'UNORDERED', 'UNORDERED_NOREPL']


def scope_text(tier):
    return 'CC-1 (4 types x {2,3} choices x %s options x 6 placements), pure functions over index rows in {-1,0..3}^(1..3), linked dv family' % \
        ('{2,3}' if tier == 'quick' else '{2,3,4}')


def cases(tier, seed):
    for spec in families.cc1(tier):
        yield dict(spec=spec)
    for ctype in TYPES:
        for k in (1, 2, 3):
            yield dict(pure='valid_idx', ctype=ctype, k=k)
        for nc in (2, 3):
            for no in (2, 3, 4):
                yield dict(pure='removed', ctype=ctype, nc=nc, no=no)
    for spec in families.dvlink(tier):
        yield dict(dvlink=spec)


def worker_init(tier, seed):
    env.install_inline_limiter()


# ------------------------------------------------------------------ pure functions

def run_pure(case, res, viol):
    from adsg_core.graph.choice_constraints import (ChoiceConstraintType, ChoiceConstraint, get_valid_idx_combinations,
                                                    get_constraint_removed_options, get_constraint_pre_removed_options,
                                                    count_n_combinations_max)
    from adsg_core.graph.adsg_nodes import SelectionChoiceNode, NamedNode
    res['features']['pure'] = 1
    ctype = case['ctype']
    T = ChoiceConstraintType[ctype]
    if case['pure'] == 'valid_idx':
        k = case['k']
        rows = list(itertools.product([-1, 0, 1, 2, 3], repeat=k))
        mat = np.array(rows, dtype=int)
        for perm in (False, True):
            if ctype == 'UNORDERED_NOREPL' and perm:
                pred = lambda idx: refmodel.index_predicate('UNORDERED', idx)
            else:
                pred = lambda idx: refmodel.index_predicate(ctype, idx)
            got = set(int(i) for i in get_valid_idx_combinations(mat, T, is_all_permanent=perm))
            exp = set()
            for i, r in enumerate(rows):
                act = [v for v in r if v != -1]
                if k <= 1 or len(act) < 2 or pred(act):
                    exp.add(i)
            res['evals'] += len(rows)
            res['trans'] += len(rows)
            if got != exp:
                viol('valid-idx-combinations-differ', dict(is_all_permanent=perm, wrongly_valid=[rows[i] for i in sorted(got-exp)][:4],
                                                           wrongly_invalid=[rows[i] for i in sorted(exp-got)][:4]))
                return
        res['nontrivial'] = k >= 2
        return
    nc, no = case['nc'], case['no']
    nodes = [SelectionChoiceNode(f'X{i}') for i in range(nc)]
    options = [[NamedNode(f'x{i}o{j}') for j in range(no)] for i in range(nc)]
    con = ChoiceConstraint(T, nodes, options)
    for it in range(nc):
        for io in range(no):
            removed = dict((n, opts) for n, opts in get_constraint_removed_options(con, it, io))
            res['evals'] += 1
            res['trans'] += 1
            for j in range(nc):
                if j == it:
                    continue
                rem = {options[j].index(o) for o in removed.get(nodes[j], [])}
                pair = (lambda a, b: refmodel.index_predicate(ctype, [a, b]))
                exp_keep = {jo for jo in range(no) if (pair(io, jo) if it < j else pair(jo, io))}
                if set(range(no))-rem != exp_keep:
                    viol('removed-options-differ', dict(taken=it, chosen=io, other=j, kept=sorted(set(range(no))-rem),
                                                        expected_kept=sorted(exp_keep)))
                    return
    # number of combinations when all choices are active together
    exp_n = sum(1 for idx in itertools.product(range(no), repeat=nc) if refmodel.index_predicate(ctype, list(idx)))
    got_n = count_n_combinations_max(con, is_all_permanent=True)
    if ctype == 'UNORDERED_NOREPL':
        # counted over the pre-reduced option lists (documented): apply the documented pre-removal first
        pre = dict(get_constraint_pre_removed_options(con, set(nodes)))
        red = [[o for o in options[i] if o not in pre.get(nodes[i], [])] for i in range(nc)]
        exp_pre = [[j for j in range(no) if i <= j < no-(nc-i-1)] for i in range(nc)]
        got_pre = [[options[i].index(o) for o in red[i]] for i in range(nc)]
        if got_pre != exp_pre:
            viol('pre-removed-options-differ', dict(got=got_pre, expected=exp_pre))
            return
        if all(len(r) > 0 for r in red):
            got_n = count_n_combinations_max(ChoiceConstraint(T, nodes, red), is_all_permanent=True)
        else:
            got_n = 0
    if ctype == 'PERMUTATION' and nc > no:
        pre = get_constraint_pre_removed_options(con, set(nodes))
        if not pre or any(len(opts) != no for _, opts in pre):
            viol('permutation-pre-removal-missing', dict(nc=nc, no=no))
    res['evals'] += 1
    if got_n != exp_n:
        viol('count-combinations-differ', dict(got=got_n, expected=exp_n))
    res['nontrivial'] = True


# ------------------------------------------------------------------ linked dv nodes

def run_dvlink(spec, res, viol):
    res['features']['dvlink'] = 1
    b = vbuild.build(spec)
    d1, d2 = b.nodes['D1'], b.nodes['D2']
    s1, s2 = spec['dv']['D1'], spec['dv']['D2']

    def expect(node_s, other_s, v):
        if 'options' in node_s:
            c = min(max(int(v), 0), node_s['options']-1)
            return c, c
        lo, hi = node_s['bounds']
        c = min(max(v, lo), hi)
        frac = (c-lo)/(hi-lo)
        olo, ohi = other_s['bounds']
        return c, olo+frac*(ohi-olo)

    # graph level
    values = [-5, -1, 0, 1, 2, 3, 7] if 'options' in s1 else [-9.0, s1['bounds'][0], 0.3*s1['bounds'][0]+0.7*s1['bounds'][1], s1['bounds'][1], 9.0]
    for first, second, fs, ss in ((d1, d2, s1, s2), (d2, d1, s2, s1)):
        vals = values if fs is s1 else ([-5, -1, 0, 1, 2, 3, 7] if 'options' in fs else [-9.0, fs['bounds'][0], 0.5*(fs['bounds'][0]+fs['bounds'][1]), fs['bounds'][1], 9.0])
        for v in vals:
            g = b.dsg.copy()
            g.set_des_var_value(first, v)
            e1, e2 = expect(fs, ss, v)
            got1, got2 = g.des_var_value(first), g.des_var_value(second)
            res['evals'] += 1
            res['trans'] += 1
            if got1 is None or got2 is None or abs(got1-e1) > 1e-12 or abs(got2-e2) > 1e-12:
                viol('linked-dv-values-differ', dict(set_on=b.name(first), value=v, got=(got1, got2), expected=(e1, e2)))
                return
    # processor level: one variable for the pair; both nodes carry linked values whenever both exist
    for enc in ('COMPLETE', 'FAST'):
        t = sweep.decode_table(spec, enc, keep_instances=True)
        if t.gp is None:
            viol('linked-dv-processor-refused', dict(enc=enc, refused=t.refused, err=t.build_error))
            return
        n_dv_vars = sum(1 for dv in t.des_vars if proc.var_owner(t, dv)[0] == 'dv')
        if n_dv_vars != 1:
            viol('linked-dv-variable-count', dict(enc=enc, n=n_dv_vars))
            return
        for row in t.rows:
            res['evals'] += 1
            if row['exc'] is not None:
                viol('linked-dv-decode-raised', dict(enc=enc, x=row['x'], exc=row['exc']))
                return
            vals = dict(row['dv_values'])
            nodes = set(row['key'][0])
            if 'D1' in nodes and 'D2' in nodes:
                if 'D1' not in vals or 'D2' not in vals:
                    viol('linked-dv-missing-value', dict(enc=enc, x=row['x'], values=vals))
                    return
                e1, e2 = expect(s1, s2, vals['D1'])
                if abs(vals['D2']-e2) > 1e-9:
                    viol('linked-dv-not-linked', dict(enc=enc, x=row['x'], values=vals))
                    return
    res['nontrivial'] = True


# ------------------------------------------------------------------ CC-1 specs

def run_spec(spec, res, viol):
    feats = res['features']
    feats['cc_spec'] = 1
    archs = refmodel.selection_architectures(spec)
    adm = [a for a in archs if a['admissible']]
    unconstrained = refmodel.selection_architectures(dict(spec, cc=[]))
    if len(adm) < len([a for a in unconstrained if a['admissible']]) and adm:
        res['nontrivial'] = True
    ctype, members = spec['cc'][0]
    origin = {c: o for c, o, _ in spec['choices']}
    if len({origin[m] for m in members}) == len(members) and all(origin[m] != 'a' for m in members) \
            and not any(origin[m] in [x for _, _, os_ in spec['choices'] for x in os_ if _ == 'never'] for m in members):
        pass
    if any(c == 'P' for c, _, _ in spec['choices']) and len({origin[m] for m in members}) == len(members):
        feats['mutex_placement'] = 1
    n_opts = len(spec['choices'][-1][2])
    if ctype in ('PERMUTATION', 'UNORDERED_NOREPL') and len(members) > n_opts:
        feats['unsatisfiable'] = 1
    try:
        b = vbuild.build(spec)
    except Exception as e:
        viol('build-raised', dict(exc=(type(e).__name__, str(e)[:200])))
        return
    # graph level: all orders
    c02.analyse(spec, b, res, lambda k, d: viol(k, d), check_pruning=True)
    # processor level
    A = refmodel.arch_keys(spec)
    coarse = lambda k: (k[0], k[2])
    for enc in ('COMPLETE', 'FAST'):
        t = sweep.decode_table(spec, enc)
        c01.check_table(spec, enc, t, A, res, lambda k, d, e: viol(k, d, e))
        if t.gp is None or t.skipped_too_large:
            continue
        got = {coarse(r['key']) for r in t.rows if r['exc'] is None and 'key' in r}
        ref = {coarse(k) for k in A}
        if A and got != ref and not any(v['case'].get('enc') == enc for v in res['violations']):
            viol('decodes-differ-from-documented-combinations',
                 dict(missing=sorted(ref-got)[:3], extra=sorted(got-ref)[:3], n_ref=len(ref), n_got=len(got)), enc)
        if enc == 'COMPLETE' and not any(v['case'].get('enc') == enc for v in res['violations']):
            proc.check_c04(spec, t, res, lambda k, d, e: viol(k, d, e), proc.reference_dv_keys(spec))


def run_case(case):
    res = dict(evals=0, states=0, trans=0, nontrivial=False, features={}, violations=[])

    if 'pure' in case:
        res['key'] = 'pure-%s-%s-%s' % (case['pure'], case['ctype'], case.get('k', (case.get('nc'), case.get('no'))))
        run_pure(case, res, lambda k, d: res['violations'].append(dict(kind=k, case=case, detail=d)))
        res['states'] += 1
        res['sample'] = case
    elif 'dvlink' in case:
        spec = case['dvlink']
        res['key'] = en.spec_id(spec)
        run_dvlink(spec, res, lambda k, d: res['violations'].append(dict(kind=k, case=dict(spec=spec), detail=d)))
        res['states'] += 1
        res['sample'] = case
    else:
        spec = case['spec']
        res['key'] = en.spec_id(spec)

        def viol(kind, detail, enc=None):
            c = dict(spec=spec) if enc is None else dict(spec=spec, enc=enc)
            res['violations'].append(dict(kind=kind, case=c, detail=detail))
        run_spec(spec, res, viol)
        res['sample'] = dict(spec=spec)
    return res
