"""
C02 -- an architecture instance is exactly the derivation closure of the choices made; the set
of feasible instances equals the reference enumeration; the result is order independent.

E2: the complete instance-derivation state graph of every canonical selection spec of the scope
(every offered choice in every state, every offered option), invariants on every state, leaf laws
on every leaf, both inclusions against the reference model.
"""
from vf import refmodel, enumerate as en, build as vbuild, e2
from adsg_core.graph.adsg_nodes import SelectionChoiceNode, ChoiceNode

LEVEL = 'model_checking'
RULE = ('case = canonical selection spec; its derivation state graph is explored completely (BFS, states keyed by '
        'canonical graph + assignment); non-trivial = spec whose state graph has >= 2 distinct choice orders '
        '(a state with >= 2 offered choices) or >= 2 feasible leaves; distinct = spec id')
ASSUMPTIONS = ['reference closure semantics from docs/theory.md (vf/refmodel.py)',
               'states are merged only if graph (nodes, typed edges) and assignment made so far are identical']
CHUNK = 100
REQUIRED_FEATURES = {'*': ['multi_order', 'multi_leaf', 'infeasible_leaf', 'auto_resolved', 'shared_option', 'cycle', 'staged_build']}
MAX_STATES = 5000


def scope_text(tier):
    return ('SEL-q' if tier == 'quick' else 'SEL-t') + ' (vf/enumerate.py SCOPES) + CYC family (all edge subsets among 3 nodes x entry choices) + DIAMOND family (reconverging branches of length 1-3) + UNR, INC, INC-2 families + staged build histories (one derivation edge added in place to the initialised graph, initialised again) for DIAMOND and INC: all canonical specs, all choice orders, all options'


def cases(tier, seed):
    for spec in en.scope_specs('SEL-q' if tier == 'quick' else 'SEL-t'):
        yield dict(spec=spec)
    from vf import families
    for spec in families.cyc(tier):      # nested / overlapping cycles entered at different depths
        yield dict(spec=spec)
    for spec in families.inc(tier):      # incompatibility below an option with a nested choice (marker / rollback paths)
        yield dict(spec=spec)
    for spec in families.unr(tier):      # non-derivable (cyclic) parts referenced by incompatibility constraints
        yield dict(spec=spec)
    for spec in families.inc2(tier):     # one node in two incompatibility constraints, derived partners
        yield dict(spec=spec)
    for spec in families.inc3(tier):     # per-option removal influences on a shared derived node
        yield dict(spec=spec)
    for spec in families.diamond(tier):  # reconverging derivation branches below an option
        yield dict(spec=spec)
    # build history: one derivation edge is added IN PLACE to the initialised graph object, which is initialised again
    for fam in (families.diamond, families.inc):
        for spec in fam(tier):
            for e in spec['edges']:
                yield dict(spec=spec, staged=[list(e)])


def partial_closure(spec, assign):
    X, active, missing = refmodel.closure(spec, {c: o for c, o in assign.items() if o is not None})
    return X, active, missing


def has_cycle(spec):
    succ = {}
    for u, v in spec.get('edges', []):
        succ.setdefault(u, set()).add(v)
    for cid, o, opts in spec.get('choices', []):
        for x in opts:
            succ.setdefault(o, set()).add(x)
    color = {}

    def dfs(u):
        color[u] = 1
        for v in succ.get(u, ()):
            if color.get(v) == 1 or (color.get(v) is None and dfs(v)):
                return True
        color[u] = 2
        return False
    return any(color.get(u) is None and dfs(u) for u in list(succ))


def analyse(spec, b, res, viol, check_pruning=False):
    """Explore and apply state invariants / leaf laws.  Returns (states, leaves)."""
    feats = res['features']
    archs = refmodel.selection_architectures(spec)
    adm = [a for a in archs if a['admissible']]
    adm_keys, all_keys = {}, {}
    for a in archs:
        k = refmodel.arch_key(dict(a, edges=refmodel.expected_edges(spec, a), conns=()))
        all_keys.setdefault(k, []).append(a)
        if a['admissible']:
            adm_keys.setdefault(k, []).append(a)
    origin = {cid: o for cid, o, _ in spec.get('choices', [])}
    starts = set(spec['starts'])
    bad = []

    def on_state(st):
        dsg = st.dsg
        names = {b.name(n) for n in dsg.graph.nodes}
        if st.exc:
            bad.append(('state-exception', dict(path=st.path, exc=st.exc)))
            return
        if not st.feasible:
            return
        # 1. start nodes present
        if not starts <= names:
            bad.append(('start-node-missing', dict(path=st.path, missing=sorted(starts-names))))
        # 2. nothing unreachable is kept
        reach = set()
        todo = [b.nodes[s] for s in spec['starts'] if b.nodes[s] in dsg.graph.nodes]
        while todo:
            u = todo.pop()
            if u in reach:
                continue
            reach.add(u)
            todo.extend(dsg.graph.successors(u))
        unreach = sorted(b.name(n) for n in dsg.graph.nodes if n not in reach)
        if unreach:
            bad.append(('unreachable-kept', dict(path=st.path, nodes=unreach)))
        # 3. nothing required is missing
        X, active, missing = partial_closure(spec, st.assign)
        if not X <= names:
            bad.append(('required-missing', dict(path=st.path, missing=sorted(X-names))))
        # 4. offered choices have a confirmed origin
        for c in st.next:
            if isinstance(c, SelectionChoiceNode) and origin.get(b.name(c)) not in X:
                bad.append(('inactive-choice-offered', dict(path=st.path, choice=b.name(c))))
        # 5. no active selection choice with <= 1 option survives a step
        for c in st.next:
            if isinstance(c, SelectionChoiceNode) and c in dsg.graph.nodes and len(dsg.get_option_nodes(c)) <= 1:
                bad.append(('single-option-choice-left', dict(path=st.path, choice=b.name(c))))
        if len([c for c in st.next if isinstance(c, SelectionChoiceNode)]) >= 2:
            feats['multi_order'] = 1
        if check_pruning:
            # C06: no feasible state holds both ends of an incompatibility among its confirmed nodes
            for u, v in spec.get('incompat', []):
                if u in X and v in X and u in names and v in names:
                    bad.append(('incompatible-pair-in-feasible-state', dict(path=st.path, pair=[u, v])))
            # no over-pruning: every admissible architecture extending the assignment keeps its options
            for c in st.next:
                if not isinstance(c, SelectionChoiceNode):
                    continue
                cid = b.name(c)
                offered = {b.name(o) for o in dsg.get_option_nodes(c)}
                for a in adm:
                    if all(a['assign'].get(k) == v for k, v in st.assign.items() if v is not None) \
                            and cid in a['assign'] and a['assign'][cid] not in offered:
                        bad.append(('admissible-option-not-offered',
                                    dict(path=st.path, choice=cid, option=a['assign'][cid])))
                        break

    def on_transition(st, c, o, succ, exc):
        if exc is not None:
            if st.feasible:
                bad.append(('apply-raised', dict(path=st.path, choice=b.name(c), option=b.name(o), exc=exc)))
            else:
                feats['apply_raised_on_infeasible'] = feats.get('apply_raised_on_infeasible', 0) + 1

    states, n_trans, leaves, capped = e2.explore(b, on_state=on_state, on_transition=on_transition,
                                                 max_states=MAX_STATES)
    res['states'] += len(states)
    res['trans'] += n_trans
    res['evals'] += len(states)
    if capped:
        res.setdefault('caps', {})['max_states'] = 1

    feasible_leaf_keys = set()
    for lf in leaves:
        dsg = lf.dsg
        if any(v is None for v in lf.assign.values()) or len(lf.assign) > len(lf.path):
            feats['auto_resolved'] = 1
        if not lf.feasible:
            feats['infeasible_leaf'] = 1
            continue
        left = sorted(b.name(n) for n in dsg.graph.nodes if isinstance(n, SelectionChoiceNode))
        if left:
            bad.append(('choice-left-in-leaf', dict(path=lf.path, left=left)))
            continue
        if not dsg.final:
            bad.append(('leaf-not-final', dict(path=lf.path)))
        from vf import observe
        key = observe.inst_key(b, dsg)
        feasible_leaf_keys.add(key)
        cands = adm_keys.get(key)
        if cands is None:
            kind = 'leaf-inadmissible' if key in all_keys else 'leaf-not-a-closure'
            bad.append((kind, dict(path=lf.path, key=key)))
            continue
        explicit = {k: v for k, v in lf.assign.items() if v is not None}
        if not any(all(a['assign'].get(k) == v for k, v in explicit.items()) for a in cands):
            bad.append(('leaf-differs-from-choices-made', dict(path=lf.path, key=key, assign=lf.assign,
                                                               ref_assign=[a['assign'] for a in cands])))
    # order independence: an explicit choice sequence (as a set) leads to one result
    by_set = {}
    for lf in leaves:
        k = frozenset(lf.path)
        by_set.setdefault(k, set()).add((lf.gkey if lf.feasible else None, lf.feasible))  # infeasible results: only the verdict counts
    for k, v in by_set.items():
        if len(v) > 1:
            bad.append(('order-dependent-result', dict(choices=sorted(k), n_results=len(v))))
            break
    missing = [adm_keys[k][0]['assign'] for k in adm_keys if k not in feasible_leaf_keys]
    if missing and not capped:
        bad.append(('admissible-architecture-unreachable', dict(missing=missing[:3], n_missing=len(missing),
                                                                 n_ref=len(adm_keys))))
    if len(feasible_leaf_keys) >= 2:
        feats['multi_leaf'] = 1
    seen_kinds = set()
    for kind, detail in bad:
        if kind in seen_kinds:
            continue
        seen_kinds.add(kind)
        viol(kind, detail)
    return states, leaves, adm


def run_case(case):
    spec = case['spec']
    res = dict(evals=0, states=0, trans=0, nontrivial=False, key=en.spec_id(spec), features={}, violations=[])
    feats = res['features']

    def viol(kind, detail):
        c = dict(spec=spec, staged=case['staged']) if case.get('staged') else dict(spec=spec)
        res['violations'].append(dict(kind=kind, case=c, detail=detail))

    opts_all = [x for _, _, opts in spec.get('choices', []) for x in opts]
    if len(set(opts_all)) < len(opts_all):
        feats['shared_option'] = 1
    if has_cycle(spec):
        feats['cycle'] = 1
    try:
        b = vbuild.build(spec, staged_edges=case.get('staged'))
        if case.get('staged'):
            if not b.staged:
                res['sample'] = dict(spec=spec, staged=case['staged'], skipped='first initialisation removes / resolves something')
                return res
            feats['staged_build'] = 1
            res['key'] = res['key'] + ':staged:' + repr(case['staged'])
    except Exception as e:
        viol('build-raised', dict(exc=(type(e).__name__, str(e)[:200])))
        return res
    states, leaves, adm = analyse(spec, b, res, viol)
    res['nontrivial'] = bool(feats.get('multi_order') or feats.get('multi_leaf'))
    res['sample'] = dict(spec=spec, states=len(states), leaves=len(leaves), n_ref_admissible=len(adm))
    return res
