"""
C15 -- fixing a design variable restricts the design space exactly; freeing restores it.

E3 restricted to the alphabet {fix(v, val), free(v)} (+ rejected operations): for every subject spec and both encoders EVERY
sequence up to the depth bound is replayed on a fresh processor; after it, the design variables, the complete decode table,
the enumeration (complete encoder), the counts and the statistics must describe exactly the subset of the unfixed problem
selected by the current fixed map (subset law, both inclusions); rejected operations raise and change nothing.
"""
import itertools
import numpy as np
from vf import refmodel, sweep, enumerate as en, families, env, proc, observe

LEVEL = 'model_checking'
RULE = ('case = (spec, encoder): all fix/free sequences of length <= depth (quick 3, the 40 smallest subjects 4; thorough 4) over all '
        'selection / design-variable variables and all their values, + every rejected operation after every sequence of length <= 2; '
        'non-trivial = subject with >= 2 valid designs and a conditionally active variable or >= 2 variables')
ASSUMPTIONS = ['reference = the unfixed problem observed on a fresh processor (enumeration rows for the complete encoder, decode '
               'table for the fast encoder), filtered by the fixed map',
               'for several fixed variables: required = designs where every fixed variable is active with its value, allowed = '
               'designs where every fixed variable is inactive or has its value']
CHUNK = 2
REQUIRED_FEATURES = {'*': ['seq', 'restore_checked', 'rejected_op', 'cond_active_fixed', 'dv_fixed', 'conn_subject']}
_TIER = ['quick']


def scope_text(tier):
    return ('%s smallest multi-architecture SEL-q specs + DV-1 and CON-1 subjects; all variables, all values; both encoders' %
            ('200' if tier == 'quick' else '700'))


def subjects(tier):
    out = []
    n = 0
    for spec in en.scope_specs('SEL-q'):
        if not spec['choices']:
            continue
        A = refmodel.arch_keys(spec)
        if len(A) < 2 or len(A) > 64:
            continue
        if any(len(set(o for _, _, os_ in spec['choices'] for o in os_)) < sum(len(os_) for _, _, os_ in spec['choices']) for _ in [0]):
            # shared option nodes: complete encoder known finding F8 dominates; still included in thorough
            if tier == 'quick':
                continue
        out.append(('sel', spec))
        n += 1
        if n >= (200 if tier == 'quick' else 700):
            break
    # a selection choice that is FORCED (gets no variable) in front of later variables: variable index != choice index
    out.append(('sel', dict(starts=['n1', 'n4', 'n5'], nodes=['n2', 'n3', 'n11', 'n12', 'n21', 'n22', 'n31', 'n32', 'n41', 'n42'],
                            edges=[['n11', 'n2'], ['n12', 'n3']],
                            choices=[['C1', 'n1', ['n11', 'n12']], ['C2', 'n2', ['n21', 'n22']], ['C3', 'n3', ['n31', 'n32']],
                                     ['C4', 'n4', ['n21', 'n22']], ['C5', 'n5', ['n41', 'n42']]],
                            incompat=[['n21', 'n31'], ['n11', 'n41'], ['n12', 'n42']])))
    k = 0
    for spec in families.dv1('quick'):
        if len(spec['dv']) == 2 and spec['choices']:
            k += 1
            if k % (7 if tier == 'quick' else 2) == 0:
                out.append(('dv', spec))
    k = 0
    for spec in families.con1('quick'):
        k += 1
        if k % (97 if tier == 'quick' else 23) == 0:
            out.append(('conn', spec))
    return out


def cases(tier, seed):
    for i, (kind, spec) in enumerate(subjects(tier)):
        for enc in ('COMPLETE', 'FAST'):
            yield dict(spec=spec, enc=enc, kind=kind, depth=(4 if (tier != 'quick' or i < 40) else 3))


def worker_init(tier, seed):
    _TIER[0] = tier
    env.install_inline_limiter()


def fresh(spec, enc):
    t = sweep.decode_table(spec, enc, space=[])
    t.rows = []
    return t


def full_table(t):
    """decode table over the current free variables: list of (x, x_imp, act, exc)"""
    dvs = list(t.gp.des_vars)
    t.des_vars = dvs
    rows = []
    for x in itertools.product(*[sweep.dv_values(dv) for dv in dvs]):
        r = sweep.decode_row(t, list(x), create=False)
        rows.append((tuple(x), r.get('x_imp'), r.get('act'), r['exc'] and r['exc'][0]))
    return rows


def eq(a, b):
    return abs(float(a)-float(b)) < 1e-9


def run_case(case):
    spec, enc, depth = case['spec'], case['enc'], case['depth']
    res = dict(evals=0, states=0, trans=0, nontrivial=False, key=en.spec_id(spec)+enc, features={}, violations=[])
    feats = res['features']

    def viol(kind, detail, seq):
        res['violations'].append(dict(kind=kind, case=dict(spec=spec, enc=enc, seq=seq), detail=detail))

    t0 = fresh(spec, enc)
    if t0.gp is None:
        res['sample'] = dict(spec=spec, enc=enc, refused=t0.refused)
        return res
    if case['kind'] == 'conn':
        feats['conn_subject'] = 1
    all_vars = list(t0.gp.all_des_vars)
    owners = [proc.var_owner(t0, dv) for dv in all_vars]
    n = len(all_vars)
    # reference: the unfixed problem
    base_table = full_table(t0)
    R0 = {(r[1], r[2]) for r in base_table if r[3] is None}            # (x_imp, act) reachable by decoding
    enum0 = None
    if enc == 'COMPLETE':
        try:
            e = t0.gp.get_all_discrete_x(with_fixed=False)
            if e is not None:
                enum0 = [(observe.clean_x(r), tuple(bool(a) for a in act)) for r, act in zip(e[0], e[1])]
        except Exception:
            enum0 = None
    disc = [i for i, dv in enumerate(all_vars) if dv.is_discrete]
    res['nontrivial'] = len(R0) >= 2 and (n >= 2 or any(dv.conditionally_active for dv in all_vars))

    ops = []
    for i, dv in enumerate(all_vars):
        if owners[i][0] == 'conn':
            continue
        for v in sweep.dv_values(dv):
            ops.append(('fix', i, v))
        ops.append(('free', i))
    bad_ops = []
    for i, dv in enumerate(all_vars):
        if owners[i][0] == 'conn':
            bad_ops.append(('fix', i, 0, 'RuntimeError'))
        elif dv.is_discrete:
            bad_ops += [('fix', i, -1, 'ValueError'), ('fix', i, dv.n_opts, 'ValueError')]
        else:
            bad_ops += [('fix', i, dv.bounds[0]-1., 'ValueError'), ('fix', i, dv.bounds[1]+.5, 'ValueError')]

    def matches(full_ximp, full_act, F, mode):
        """mode 'allowed': every fixed var inactive or == value; 'required': every fixed var active and == value"""
        for i, v in F.items():
            a = full_act[i]
            if mode == 'required' and not (a and eq(full_ximp[i], v)):
                return False
            if mode == 'allowed' and a and not eq(full_ximp[i], v):
                return False
        return True

    def check_state(t, F, seq):
        free_idx = [i for i in range(n) if i not in F]
        dvs = list(t.gp.des_vars)
        if [dv.name for dv in dvs] != [all_vars[i].name for i in free_idx]:
            viol('des-vars-not-the-unfixed-ones', dict(got=[dv.name for dv in dvs], fixed=sorted(F)), seq)
            return False
        for i in range(n):
            if t.gp.is_fixed(t.gp.all_des_vars[i]) != (i in F) or (i in F and not eq(t.gp.fixed_value(t.gp.all_des_vars[i]), F[i])):
                viol('fixed-state-wrong', dict(var=all_vars[i].name, fixed=sorted(F.items())), seq)
                return False
        tab = full_table(t)
        got = set()
        for x, x_imp, act, exc in tab:
            res['trans'] += 1
            if exc is not None:
                # decoding may only fail if the restricted problem is empty
                if any(matches(r[0], r[1], F, 'required') for r in R0):
                    viol('decode-raised-in-restricted-problem', dict(x=x, exc=exc, fixed=sorted(F.items())), seq)
                    return False
                continue
            # project the unfixed designs on the free variables and compare
            cands = [r for r in R0 if all(eq(r[0][i], x_imp[k]) and r[1][i] == act[k] for k, i in enumerate(free_idx))]
            cands = [r for r in cands if matches(r[0], r[1], F, 'allowed')]
            if not cands:
                viol('decode-outside-restricted-problem', dict(x=x, x_imp=x_imp, act=act, fixed=sorted(F.items())), seq)
                return False
            got.add((x_imp, act))
        required = {(tuple(r[0][i] for i in free_idx), tuple(r[1][i] for i in free_idx)) for r in R0 if matches(r[0], r[1], F, 'required')}
        # designs with the same free part may coincide: compare on the free projection
        missing = [r for r in required if not any(all(eq(a, b) for a, b in zip(r[0], g[0])) and r[1] == g[1] for g in got)]
        if missing:
            viol('design-with-fixed-value-lost', dict(missing=missing[:3], fixed=sorted(F.items())), seq)
            return False
        if not F:
            feats['restore_checked'] = feats.get('restore_checked', 0) + 1
            if tab != base_table:
                d = [(a, b) for a, b in zip(tab, base_table) if a != b][:1]
                viol('free-does-not-restore', dict(first_difference=d), seq)
                return False
        if enc == 'COMPLETE' and enum0 is not None:
            try:
                e = t.gp.get_all_discrete_x(with_fixed=True)
                n_valid = int(t.gp.get_n_valid_designs(with_fixed=True))
                stats = t.gp.get_statistics()
                n_stat = int(stats.loc['total-design-problem']['n_valid'])
            except Exception as ex:
                viol('restricted-enumeration-raised', dict(exc=(type(ex).__name__, str(ex)[:200]), fixed=sorted(F.items())), seq)
                return False
            rows = [(observe.clean_x(r), tuple(bool(a) for a in act)) for r, act in zip(e[0], e[1])]
            dfree = [i for i in free_idx if i in disc]
            proj = lambda r: (tuple(r[0][i] for i in dfree), tuple(r[1][i] for i in dfree))
            projr = lambda r: (tuple(r[0][k] for k, i in enumerate(free_idx) if i in disc),
                               tuple(r[1][k] for k, i in enumerate(free_idx) if i in disc))
            allowed = {proj(r) for r in enum0 if matches(r[0], r[1], {i: v for i, v in F.items() if i in disc}, 'allowed')}
            requ = {proj(r) for r in enum0 if matches(r[0], r[1], {i: v for i, v in F.items() if i in disc}, 'required')}
            gotr = [projr(r) for r in rows]
            if len(set(gotr)) != len(gotr) or not (requ <= set(gotr) <= allowed):
                viol('restricted-enumeration-wrong', dict(fixed=sorted(F.items()), n_rows=len(gotr), missing=sorted(requ-set(gotr))[:3],
                                                          extra=sorted(set(gotr)-allowed)[:3]), seq)
                return False
            if n_valid != len(rows) or n_stat != n_valid:
                # continuous variables do not multiply the count; discrete only
                viol('restricted-count-wrong', dict(fixed=sorted(F.items()), n_valid=n_valid, n_rows=len(rows), n_stat=n_stat), seq)
                return False
        return True

    for d in range(0, depth+1):
        for idxs in itertools.product(range(len(ops)), repeat=d):
            seq = [ops[i] for i in idxs]
            # skip sequences containing a free of a variable that is not fixed at that point beyond the first such no-op
            t = fresh(spec, enc)
            F = {}
            ok = True
            for op in seq:
                res['trans'] += 1
                try:
                    if op[0] == 'fix':
                        t.gp.fix_des_var(t.gp.all_des_vars[op[1]], op[2])
                        F[op[1]] = op[2]
                        if all_vars[op[1]].conditionally_active:
                            feats['cond_active_fixed'] = feats.get('cond_active_fixed', 0) + 1
                        if owners[op[1]][0] == 'dv':
                            feats['dv_fixed'] = feats.get('dv_fixed', 0) + 1
                    else:
                        t.gp.free_des_var(t.gp.all_des_vars[op[1]])
                        F.pop(op[1], None)
                except Exception as e:
                    viol('valid-operation-raised', dict(op=op, exc=(type(e).__name__, str(e)[:200])), [list(o) for o in seq])
                    ok = False
                    break
            if not ok:
                return res
            res['states'] += 1
            res['evals'] += 1
            feats['seq'] = feats.get('seq', 0) + 1
            seqj = [list(o) for o in seq]
            if not check_state(t, F, seqj):
                return res
            if d <= 2:
                before = full_table(t)
                for bop in bad_ops:
                    feats['rejected_op'] = feats.get('rejected_op', 0) + 1
                    res['trans'] += 1
                    try:
                        t.gp.fix_des_var(t.gp.all_des_vars[bop[1]], bop[2])
                        viol('invalid-fix-accepted', dict(op=bop[:3]), seqj)
                        return res
                    except (ValueError, RuntimeError) as e:
                        if type(e).__name__ != bop[3] and not (bop[3] == 'RuntimeError' and isinstance(e, RuntimeError)):
                            pass
                    except Exception as e:
                        viol('invalid-fix-wrong-exception', dict(op=bop[:3], exc=(type(e).__name__, str(e)[:200])), seqj)
                        return res
                    for i in range(n):
                        if t.gp.is_fixed(t.gp.all_des_vars[i]) != (i in F):
                            viol('rejected-fix-changed-state', dict(op=bop[:3]), seqj)
                            return res
                if bad_ops and full_table(t) != before:
                    viol('rejected-fix-changed-results', dict(), seqj)
                    return res
    res['sample'] = dict(spec=spec, enc=enc, n_ops=len(ops), depth=depth, n_designs=len(R0))
    return res
