"""
C18 -- identity, equality and serialization of graphs are structural and stable.

E3/E1:
 (a) every single structural edit (add/remove node, add an edge of every type between every ordered node pair, remove every
     edge, add/remove a start node, add a choice constraint) applied to the copy OR the original makes them unequal, undoing it
     makes them equal again (thorough: every pair of non-cancelling edits);
 (b) pickle round trips of graph and processor: same design space (is_same / fingerprint / ==), same variables, same decode table;
 (c) the same spec built in sub-processes with hash seeds {0,1,2} x 3 node-id assignments, pickled, loaded here: is_same, same
     variables and decode table;
 (d) over ALL pairs of a family of graphs: same fingerprint <=> structurally equal (names, typed edges, starts, constraints);
 (e) GML and DOT exports, parsed back, contain every node and every adjacency.
"""
import os
import sys
import json
import pickle
import tempfile
import itertools
import subprocess
import networkx as nx
from vf import refmodel, sweep, enumerate as en, families, env, build as vbuild, observe, proc
from adsg_core.graph.adsg_nodes import NamedNode, SelectionChoiceNode
from adsg_core.graph.graph_edges import EdgeType, get_edge_type
from adsg_core.graph.choice_constraints import ChoiceConstraintType

LEVEL = 'model_checking'
RULE = ('case = one driver spec (all single edits on either side, pickle, cross-process builds, exports) | one shard of the '
        'fingerprint family; states = edited/rebuilt graphs compared, transitions = comparisons; non-trivial = spec with >= 1 choice')
ASSUMPTIONS = ['stored values are not part of equality (the statement lists nodes, edges, start nodes, constraints)',
               'DOT draws one arrow per ordered node pair and one undirected line per incompatibility: presence of the adjacency is checked']
CHUNK = 1
REQUIRED_FEATURES = {'*': ['edit_add_edge', 'edit_remove_edge', 'edit_add_node', 'edit_remove_node', 'edit_start', 'edit_constraint',
                           'pickle_graph', 'pickle_processor', 'cross_process', 'fingerprint_family', 'export_gml', 'export_dot']}
_TIER = ['quick']


def scope_text(tier):
    return '%d driver specs; fingerprint family = all SEL-mini canonical specs + families (%s pairs by grouping)' % (len(drivers(tier)), 'all')


def drivers(tier):
    S = families.skel
    d = [('nested', S('nested')), ('two_starts', dict(starts=['s0', 's1'], nodes=['n1', 'n2'], edges=[['s1', 'n2']],
                                                      choices=[['C0', 's0', ['n1', 'n2']]], incompat=[['n1', 'n2']])),
         ('conn', families._conn_spec('one', [('0..1', False, 'a'), ('1', False, 'o1')], [('0..*', False, 'a'), ('1', False, 'o2')],
                                      excl=[('S1', 'T2')]))]
    sp = families._conn_spec('one', [('1', False, 'a'), ('1', False, 'o1')], [('0..*', False, 'a'), ('0..1', True, 'o2')])
    sp['grp'] = {'G': ['S1', 'S2'], 'H': ['T1', 'T2']}
    sp['cch'] = [['K0', ['G'], ['H'], []]]
    d.append(('two_groups', sp))
    sp = S('indep')
    sp['dv'] = {'D1': dict(anchor='o1', options=2), 'D2': dict(anchor='a', bounds=[0.0, 1.0])}
    sp['met'] = {'M1': dict(anchor='a', dir=-1, ref=None, type=None)}
    d.append(('dv_met', sp))
    # several design-variable nodes sharing one name, told apart by idx (equal ordering keys: order must not depend on hashing)
    sp = S('one')
    sp['dv'] = {'x%d' % i: dict(anchor='a', options=2+(i % 3), name='x', idx=i) for i in range(6)}
    d.append(('dv_same_name', sp))
    d.append(('cc', dict(starts=['a'], nodes=['x0', 'x1', 'y0', 'y1'], edges=[], incompat=[],
                         choices=[['X0', 'a', ['x0', 'x1']], ['X1', 'a', ['y0', 'y1']]], cc=[['LINKED', ['X0', 'X1']]])))
    d.append(('cc4', dict(starts=['a'], nodes=['x0', 'x1', 'y0', 'y1', 'z0', 'z1', 'w0', 'w1'], edges=[], incompat=[],
                          choices=[['X0', 'a', ['x0', 'x1']], ['X1', 'a', ['y0', 'y1']], ['X2', 'a', ['z0', 'z1']], ['X3', 'a', ['w0', 'w1']]],
                          cc=[['LINKED', ['X0', 'X1']]])))
    return d


def cases(tier, seed):
    for name, spec in drivers(tier):
        yield dict(kind='driver', name=name, spec=spec)
    for i in range(16):
        yield dict(kind='family', shard=i, n_shards=16)


def worker_init(tier, seed):
    _TIER[0] = tier
    env.install_inline_limiter()


def struct_key(b, g):
    nodes = tuple(sorted(n.str_context() for n in g.graph.nodes))
    edges = tuple(sorted((u.str_context(), v.str_context(), str(k), get_edge_type((u, v, k, d)).name)
                         for u, v, k, d in g.graph.edges(keys=True, data=True)))
    starts = tuple(sorted(n.str_context() for n in (g.derivation_start_nodes or [])))
    cons = tuple((c.type.name, tuple(n.str_context() for n in c.nodes)) for c in g.get_choice_constraints())
    return nodes, edges, starts, cons


def table(b, g, enc='COMPLETE'):
    gp = sweep.make_processor(g, enc)
    dvs = [(dv.name, dv.n_opts if dv.is_discrete else tuple(dv.bounds), bool(dv.conditionally_active)) for dv in gp.des_vars]
    rows = []
    for x in itertools.product(*[sweep.dv_values(dv) for dv in gp.des_vars]):
        inst, xi, act = gp.get_graph(list(x))
        rows.append((tuple(x), observe.clean_x(xi), tuple(bool(a) for a in act),
                     tuple(sorted(n.str_context() for n in inst.graph.nodes)),
                     tuple(sorted((u.str_context(), v.str_context(), get_edge_type((u, v, k, d)).name)
                                  for u, v, k, d in inst.graph.edges(keys=True, data=True)))))
    return dvs, rows, gp


def child_build(spec_json, which, path):
    from vf.props import c05
    spec = json.loads(spec_json)
    b = vbuild.build(spec, ids=c05.ids_for(spec, None if which == 'None' else which))
    b.dsg.fingerprint()      # anything the graph memoises about its identity travels with the pickle
    hash(b.dsg)
    with open(path, 'wb') as fp:
        pickle.dump(b.dsg, fp)


def edits(b, g, tier):
    """list of (label, do(graph), undo(graph) | None)"""
    out = []
    nodes = sorted(g.graph.nodes, key=lambda n: b.name(n))
    extra = NamedNode('extra', obj_id=424242)
    out.append((('add_node',), lambda gr: gr.add_node(extra), lambda gr: gr.graph.remove_node(extra)))
    pairs = [(u, v) for u in nodes for v in nodes if u is not v]
    if tier == 'quick':
        pairs = pairs[:: max(1, len(pairs)//12)]
    for u, v in pairs:
        for et in EdgeType:
            def do(gr, u=u, v=v, et=et):
                gr.add_edge(u, v, edge_type=et)

            def undo(gr, u=u, v=v, et=et):
                keys = [k for k, d in gr.graph.get_edge_data(u, v).items() if d['type'] == et]
                gr.graph.remove_edge(u, v, key=keys[-1])
            out.append((('add_edge', b.name(u), b.name(v), et.name), do, undo))
    for u, v, k, d in list(g.graph.edges(keys=True, data=True)):
        def do(gr, u=u, v=v, k=k):
            gr.graph.remove_edge(u, v, key=k)

        def undo(gr, u=u, v=v, k=k, d=d):
            gr.graph.add_edge(u, v, key=k, **d)
        out.append((('remove_edge', b.name(u), b.name(v), get_edge_type((u, v, k, d)).name), do, undo))
    for n in nodes:
        out.append((('remove_node', b.name(n)), lambda gr, n=n: gr.graph.remove_node(n), None))
    return out


def run_driver(case, res):
    spec = case['spec']
    feats = res['features']
    tier = _TIER[0]

    def viol(kind, detail):
        res['violations'].append(dict(kind=kind, case=dict(name=case['name'], spec=spec), detail=detail))

    b = vbuild.build(spec)
    g = b.dsg
    res['nontrivial'] = bool(spec.get('choices'))

    def cmp_equal(x, y, label, expect):
        res['trans'] += 1
        try:
            eq, heq = (x == y), (hash(x) == hash(y))
        except Exception as e:
            viol('comparison-raised', dict(step=label, exc=(type(e).__name__, str(e)[:200])))
            return False
        if eq != expect or (expect and not heq):
            viol('equal-after-edit' if not expect else 'unequal-copy', dict(step=label, eq=eq, hash_eq=heq))
            return False
        return True

    # (a) single edits on the copy and on the original
    c0 = g.copy()
    if not cmp_equal(c0, g, 'fresh copy', True):
        return
    for side in ('copy', 'original'):
        for label, do, undo in edits(b, g, tier):
            orig = vbuild.build(spec).dsg if side == 'original' else g
            cp = orig.copy()
            target = cp if side == 'copy' else orig
            other = orig if side == 'copy' else cp
            try:
                do(target)
            except Exception as e:
                continue  # edit not applicable
            res['states'] += 1
            res['evals'] += 1
            feats['edit_' + label[0]] = 1
            if not cmp_equal(target, other, (side,)+label, False):
                return
            if undo is not None:
                undo(target)
                if not cmp_equal(target, other, (side,)+label+('undone',), True):
                    return
                if tier != 'quick' and side == 'copy':
                    # second, different edit on top of the first: still unequal
                    do(target)
                    for label2, do2, undo2 in edits(b, g, 'quick')[:8]:
                        if label2 == label:
                            continue
                        if label[0] == 'remove_edge' and label2[0] == 'add_edge' and label2[1:3] == label[1:3]:
                            continue   # replaces the removed edge by one between the same nodes (possibly of another type):
                            #            outside the statement (gains or loses a node / an edge)
                        try:
                            do2(target)
                        except Exception:
                            continue
                        # the second edit may undo the first one (remove edge e, add edge e): no claim then
                        ok = struct_key(b, target) == struct_key(b, other) or cmp_equal(target, other, (side,)+label+label2, False)
                        if undo2 is not None:
                            undo2(target)
                        if not ok:
                            return
                    undo(target)
    # start nodes
    raw = vbuild.build(spec, initialize=False).raw
    starts = {b2 for b2 in raw.graph.nodes if getattr(b2, 'name', None) in spec['starts']}
    non_start = [n for n in raw.graph.nodes if isinstance(n, NamedNode) and n.name not in spec['starts']]
    base = raw.set_start_nodes(set(starts), initialize_choices=False)
    if non_start:
        feats['edit_start'] = 1
        more = vbuild.build(spec, initialize=False).raw
        ms = {n for n in more.graph.nodes if getattr(n, 'name', None) in spec['starts']} | \
             {n for n in more.graph.nodes if getattr(n, 'name', None) == non_start[0].name}
        g_more = more.set_start_nodes(ms, initialize_choices=False)
        res['states'] += 1
        if struct_key(b, g_more)[:2] == struct_key(b, base)[:2]:
            if not cmp_equal(g_more, base, ('add_start', non_start[0].name), False):
                return
    if len(spec['starts']) == 2:
        less = vbuild.build(spec, initialize=False).raw
        ls = {n for n in less.graph.nodes if getattr(n, 'name', None) == spec['starts'][0]}
        g_less = less.set_start_nodes(ls, initialize_choices=False)
        if struct_key(b, g_less)[:2] == struct_key(b, base)[:2]:
            if not cmp_equal(g_less, base, ('remove_start',), False):
                return
    # constraint on the copy
    sel = sorted([n for n in g.graph.nodes if isinstance(n, SelectionChoiceNode)], key=b.name)
    if len(sel) >= 2 and not g.get_choice_constraints():
        cp = g.copy()
        try:
            cp2 = cp.constrain_choices(ChoiceConstraintType.LINKED, sel[:2])
            feats['edit_constraint'] = 1
            res['states'] += 1
            if struct_key(b, cp2)[:2] == struct_key(b, g)[:2] and not cmp_equal(cp2, g, ('add_constraint',), False):
                return
        except Exception:
            pass
    elif g.get_choice_constraints():
        feats['edit_constraint'] = 1
        # a SECOND constraint on either side of (original, copy) when the graph already holds one
        free = [c for c in sel if g.is_constrained_choice(c) is None]
        if len(free) >= 2:
            for side in ('copy', 'original'):
                orig = vbuild.build(spec).dsg
                cp = orig.copy()
                target, other = (cp, orig) if side == 'copy' else (orig, cp)
                tsel = sorted([n for n in target.graph.nodes if isinstance(n, SelectionChoiceNode) and
                               target.is_constrained_choice(n) is None], key=b.name)
                n_other_before = len(other.get_choice_constraints())
                key_other_before = struct_key(b, other)
                t2 = target.constrain_choices(ChoiceConstraintType.PERMUTATION, tsel[:2])
                res['states'] += 1
                if len(other.get_choice_constraints()) != n_other_before or struct_key(b, other) != key_other_before:
                    viol('constraint-added-on-one-side-appears-on-the-other', dict(side=side))
                    return
                if not cmp_equal(t2, other, (side, 'second_constraint'), False):
                    return
        unconstrained = vbuild.build(spec, constrain=False).dsg
        res['states'] += 1
        if struct_key(b, unconstrained)[:2] == struct_key(b, g)[:2] and not cmp_equal(unconstrained, g, ('without_constraint',), False):
            return

    # (b) pickle
    g2 = pickle.loads(pickle.dumps(g))
    feats['pickle_graph'] = 1
    res['states'] += 1
    if not g2.is_same(g) or not g.is_same(g2) or g2.fingerprint() != g.fingerprint():
        viol('unpickled-graph-not-same', dict())
        return
    if struct_key(b, g2) != struct_key(b, g):
        viol('unpickled-graph-structure-differs', dict())
        return
    if b.dsg.feasible:
        try:
            dvs1, rows1, gp1 = table(b, g)
        except (ValueError, RuntimeError):
            dvs1 = None
        if dvs1 is not None:
            dvs2, rows2, _ = table(b, g2)
            gp3 = pickle.loads(pickle.dumps(gp1))
            feats['pickle_processor'] = 1
            rows3 = []
            for x in itertools.product(*[sweep.dv_values(dv) for dv in gp3.des_vars]):
                inst, xi, act = gp3.get_graph(list(x))
                rows3.append((tuple(x), observe.clean_x(xi), tuple(bool(a) for a in act),
                              tuple(sorted(n.str_context() for n in inst.graph.nodes)),
                              tuple(sorted((u.str_context(), v.str_context(), get_edge_type((u, v, k, d)).name)
                                           for u, v, k, d in inst.graph.edges(keys=True, data=True)))))
            res['trans'] += 3*len(rows1)
            if (dvs2, rows2) != (dvs1, rows1):
                viol('unpickled-graph-decodes-differently', dict())
                return
            if rows3 != rows1:
                viol('unpickled-processor-decodes-differently', dict())
                return
            # (c) cross-process builds
            tmp = tempfile.mkdtemp(prefix='vf_c18_')
            try:
                for hs in ('0', '1', '2'):
                    for which in ('None', 'reversed', 'shuffled'):
                        path = os.path.join(tmp, f'{hs}_{which}.pkl')
                        envp = os.environ.copy()
                        envp['PYTHONHASHSEED'] = hs
                        code = ("import sys, warnings; warnings.filterwarnings('ignore'); from vf.props import c18; "
                                "c18.child_build(sys.argv[1], sys.argv[2], sys.argv[3])")
                        r = subprocess.run([sys.executable, '-c', code, json.dumps(spec), which, path], env=envp,
                                           capture_output=True, text=True)
                        if r.returncode != 0:
                            viol('cross-process-build-failed', dict(stderr=r.stderr[-300:]))
                            return
                        with open(path, 'rb') as fp:
                            gx = pickle.load(fp)
                        feats['cross_process'] = feats.get('cross_process', 0) + 1
                        res['states'] += 1
                        if not gx.is_same(g) or not g.is_same(gx):
                            viol('rebuilt-graph-not-recognised-as-same', dict(hash_seed=hs, ids=which))
                            return
                        dvsx, rowsx, _ = table(b, gx)
                        res['trans'] += len(rowsx)
                        if (dvsx, rowsx) != (dvs1, rows1):
                            d = [(a, c) for a, c in zip(rowsx, rows1) if a != c][:1]
                            viol('rebuilt-graph-decodes-differently', dict(hash_seed=hs, ids=which, dvs=(dvsx, dvs1), first=d))
                            return
            finally:
                import shutil
                shutil.rmtree(tmp, ignore_errors=True)

    # (e) exports
    names = sorted(str(n) for n in g.graph.nodes)
    adj = {(str(u), str(v)) for u, v in g.graph.edges()}
    try:
        gml = g.export_gml()
        feats['export_gml'] = 1
        parsed = nx.parse_gml(gml, label='id')   # by id: labels need not be unique (e.g. two grouping nodes)
        pn = sorted(str(d.get('label')) for _, d in parsed.nodes(data=True))
        if len(pn) != len(names) or pn != names:
            viol('gml-nodes-differ', dict(n_graph=len(names), n_export=len(pn), missing=sorted(set(names)-set(pn))[:3]))
            return
        lab = {i: str(d.get('label')) for i, d in parsed.nodes(data=True)}
        pe = sorted((lab[e[0]], lab[e[1]]) for e in parsed.edges)
        ge = sorted((str(u), str(v)) for u, v, k in g.graph.edges(keys=True))
        if pe != ge:
            viol('gml-edges-differ', dict(n_graph=len(ge), n_export=len(pe)))
            return
    except Exception as e:
        viol('gml-export-raised', dict(exc=(type(e).__name__, str(e)[:200])))
        return
    try:
        dot = g.export_dot(return_dot=True)
        feats['export_dot'] = 1
        dn = [n for n in dot.get_nodes() if n.get_name() not in ('graph', 'node', 'edge')]
        if len(dn) != len(names):
            viol('dot-nodes-differ', dict(n_graph=len(names), n_export=len(dn)))
            return
        labels = sorted(str(n.get('label')).strip('"').replace('<<B>', '').replace('</B>>', '') for n in dn)
        titles = sorted(str(n.get_export_title()) for n in g.graph.nodes)
        if labels != titles:
            viol('dot-node-labels-differ', dict(export=labels[:6], graph=titles[:6]))
            return
        id_to_label = {n.get_name(): str(n.get('label')).strip('"').replace('<<B>', '').replace('</B>>', '') for n in dn}
        de = {(id_to_label[e.get_source()], id_to_label[e.get_destination()]) for e in dot.get_edges()}
        con_pairs = {(str(u.get_export_title()), str(v.get_export_title())) for c in g.get_choice_constraints()
                     for u, v in itertools.combinations(c.nodes, 2)}
        gadj = {(str(u.get_export_title()), str(v.get_export_title())) for u, v in g.graph.edges()}
        missing = [p for p in gadj if p not in de and (p[1], p[0]) not in de]
        if missing:
            viol('dot-adjacency-missing', dict(missing=missing[:3]))
            return
    except Exception as e:
        viol('dot-export-raised', dict(exc=(type(e).__name__, str(e)[:200])))
        return


def family_specs(shard, n_shards):
    i = -1
    gens = [en.scope_specs('SEL-mini'), families.cc1('quick'), families.con1('quick'), families.dv2('quick'), families.met1('quick')]
    for gen in gens:
        for spec in gen:
            i += 1
            if i % n_shards == shard:
                yield spec


def run_family(case, res):
    res['features']['fingerprint_family'] = 1
    out = {}
    n = 0
    for spec in family_specs(case['shard'], case['n_shards']):
        try:
            b = vbuild.build(spec)
        except Exception:
            continue
        n += 1
        sk = struct_key(b, b.dsg)
        # fingerprints are only comparable within one process: make them comparable through a canonical digest of the
        # node/edge fingerprints' inputs is NOT possible; instead send the structure and re-fingerprint pairs in finalize?
        # -> is_same is a pure function of str_context/edge data: compute it here against a reference pickle instead.
        out.setdefault(repr(sk), []).append(pickle.dumps(b.dsg))
    res['evals'] += n
    res['states'] += n
    res['_fam'] = out
    res['nontrivial'] = True


def run_case(case):
    res = dict(evals=0, states=0, trans=0, nontrivial=False, features={}, violations=[])
    if case['kind'] == 'driver':
        res['key'] = case['name']
        run_driver(case, res)
        res['sample'] = dict(name=case['name'], spec=case['spec'])
    else:
        res['key'] = 'family%d' % case['shard']
        run_family(case, res)
        res['sample'] = dict(kind='family', shard=case['shard'], distinct_structures=len(res['_fam']))
    return res


def collect(extra, res):
    if '_fam' in res:
        fam = extra.setdefault('_fam', {})
        for k, v in res['_fam'].items():
            fam.setdefault(k, []).extend(v)


def finalize(agg, tier):
    """All pairs: same fingerprint <=> structurally equal.  Done in one process (fingerprints are process-local)."""
    fam = agg['extra'].pop('_fam', {})
    out = []
    by_fp = {}
    n = 0
    for sk, blobs in fam.items():
        graphs = [pickle.loads(bb) for bb in blobs[:3]]
        fps = {g.fingerprint() for g in graphs}
        n += len(blobs)
        if len(fps) > 1:
            out.append(dict(kind='equal-structures-different-fingerprint', case=dict(kind='family', structure=sk[:300]), detail={}))
        for g in graphs[:1]:
            key = (len(g.graph.nodes), len(g.graph.edges), g.fingerprint())
            if key in by_fp and by_fp[key] != sk:
                out.append(dict(kind='different-graphs-recognised-as-same', case=dict(kind='family', a=by_fp[key][:400], b=sk[:400]),
                                detail={}))
            by_fp[key] = sk
    agg['extra']['fingerprint_family_graphs'] = n
    agg['extra']['fingerprint_family_structures'] = len(fam)
    return out
