"""
C19 -- the time limiter returns, raises or times out, and leaves nothing running.

E5: the REAL function body of run_timeout is executed over the modelled thread environment of vf/e5.py under EVERY schedule
up to a deviation bound (and without any bound for the shortest worker scripts), for every worker script of the alphabet and
the call shapes {single, back-to-back, nested}.  The model's facts about CPython are calibrated on the real interpreter at the
start of every run, and model schedules are replayed against the real ThreadPool / ctypes / threading (vf/e5_real.py).
"""
import itertools
import json
from vf import e5

LEVEL = 'model_checking'
RULE = ('case = one scenario (worker script(s) + call shape); all schedules with <= D deviations from the default choice (D = 3 '
        'quick / 4 thorough; unbounded for scripts with 0 steps (thorough: <= 1 step)) are executed; states = scheduling points visited, transitions = '
        'executions; non-trivial = scenario with >= 2 distinct outcomes over its schedules')
ASSUMPTIONS = ['the environment model of vf/e5.py (facts F1-F5, calibrated at run start; a calibration mismatch makes the check broken)',
               'thread idents are unique, no other application threads; pool handler threads are merged except result delivery',
               '"finishes in time" is judged leniently at the boundary: if the timeout fires before the result was DELIVERED a '
               'TimeoutError is accepted, unless the timeout was the only thing that could still happen']
CHUNK = 4
ALL_ON_IMPL = False   # traces_validated_against_impl = plans co-simulated on the real ThreadPool/ctypes (vf/e5_real.py)
REQUIRED_FEATURES = {'*': ['single', 'back_to_back', 'unbounded', 'swallow', 'native', 'own_exception', 'real_replay']}
_TIER = ['quick']
_FACTS = [None]

STEP_KINDS = ['i', 'n', 'sK', 'sE', 'sB']
ENDS = ['ret', 'ValueError', 'OwnTimeout', 'KeyboardInterrupt', 'retExc']


def scope_text(tier):
    return ('single call: all %d worker scripts (<= 3 steps from {interruptible, native, swallow-KeyboardInterrupt, swallow-Exception, '
            'swallow-BaseException} x 5 endings incl. returning an exception instance), deviation bound %d; scripts with 0 (thorough: <= 1) steps unbounded; back-to-back pairs; %s'
            % (len(all_scripts()), 3 if tier == 'quick' else 4, 'nested calls (thorough)' if tier != 'quick' else 'nested: 4 scenarios'))


def all_scripts():
    out = []
    for n in range(0, 4):
        for steps in itertools.product(STEP_KINDS, repeat=n):
            for end in ENDS:
                out.append(dict(steps=list(steps), end=end))
    return out


def cases(tier, seed):
    D = 3 if tier == 'quick' else 4
    for sc in all_scripts():
        yield dict(shape='single', calls=[sc], dev=D)
        if len(sc['steps']) <= (0 if tier == 'quick' else 1):
            yield dict(shape='single', calls=[sc], dev=None)
    firsts = [dict(steps=s, end=e) for s in ([], ['i'], ['n'], ['sE', 'i'], ['sB']) for e in ENDS]
    seconds = [dict(steps=[], end='ret'), dict(steps=['i'], end='ValueError')]
    for a in firsts:
        for b in seconds:
            yield dict(shape='back_to_back', calls=[a, b], dev=2 if tier == 'quick' else 3)
    inners = [dict(steps=['i'], end='ret'), dict(steps=['n'], end='ret'), dict(steps=['i', 'i'], end='ValueError'), dict(steps=['sE'], end='ret')]
    if tier != 'quick':
        inners += [dict(steps=[k], end=e) for k in STEP_KINDS for e in ENDS]
    for inner in inners:
        yield dict(shape='nested', calls=[dict(steps=[['call', inner]], end='ret')], dev=2 if tier == 'quick' else 3)
        if tier != 'quick':
            yield dict(shape='nested', calls=[dict(steps=['i', ['call', inner], 'i'], end='ret')], dev=2)
    for i in range(16):
        yield dict(shape='real_replay', shard=i, n_shards=16)


def preamble(tier, seed):
    facts = e5.calibrate()
    bad = {k: (facts.get(k), v) for k, v in e5.EXPECTED_FACTS.items() if facts.get(k) != v}
    if bad:
        raise SystemExit(f'BROKEN: environment model does not match this interpreter: {bad}')
    if facts.get('delivered_for_instance') not in ('SystemError', 'KeyboardInterrupt'):
        raise SystemExit(f'BROKEN: unexpected delivery for an exception instance: {facts.get("delivered_for_instance")}')


def worker_init(tier, seed):
    _TIER[0] = tier
    _FACTS[0] = e5.calibrate()


def check(scenario, res):
    """Invariants of one execution."""
    out = []

    def v(kind, **detail):
        out.append(dict(kind=kind, detail=detail))

    if res['diverged']:
        return out
    if res['deadlock']:
        # a deadlock is a violation only if the caller is stuck; idle pool workers that wait for work forever (a pool that
        # was created but never entered/terminated because the interrupt arrived in between) execute nothing
        if any(name == 'caller' and state != 'done' for name, state, _ in res['threads']):
            v('deadlock', threads=res['threads'])
            return out
    if res['caller_async']:
        v('interrupt-sent-to-calling-thread')
    if len(res['calls']) != len(scenario['calls']):
        v('call-did-not-complete', n=len(res['calls']))
        return out
    for ci, (script, rec) in enumerate(zip(scenario['calls'], res['calls'])):
        tag = rec['tag']
        evs = rec['events']
        pools = [e[1] for e in evs if e[0] == 'pool-created']
        outer = pools[0] if pools else None
        idx_timeout = next((i for i, e in enumerate(evs) if e[0] == 'get-timeout' and e[1] == outer), None)
        idx_done = next((i for i, e in enumerate(evs) if e[0] in ('func-return', 'func-raise') and e[1] == tag), None)
        end = script['end']
        inner_fail = next((e[2] for e in evs if e[0] == 'func-raise' and e[1] == tag and str(e[2]).startswith('inner:')), None)
        if inner_fail is not None:
            end = inner_fail      # the function failed with the uncaught own failure of its inner call
        if rec['outcome'] == 'raise' and not rec.get('exc_is_own') and not rec.get('exc_exact_builtin_timeout'):
            v('foreign-exception-escaped', call=ci, exc=rec.get('exc_type'))
        if rec['outcome'] == 'return-other':
            v('wrong-return-value', call=ci)
        if idx_timeout is None:
            # the timeout never fired: the function's own result must come back
            if end in ('ret', 'retExc') and rec['outcome'] != 'return':
                v('result-lost-without-timeout', call=ci, outcome=rec['outcome'], exc=rec.get('exc_type'))
            if end not in ('ret', 'retExc') and not (rec['outcome'] == 'raise' and rec.get('exc_is_own')):
                v('own-exception-replaced', call=ci, raised=end, outcome=rec['outcome'], exc=rec.get('exc_type'))
        else:
            if rec['outcome'] != 'raise' or not rec.get('exc_exact_builtin_timeout'):
                v('timeout-did-not-raise-timeout-error', call=ci, outcome=rec['outcome'], exc=rec.get('exc_type'))
            # the function had failed/finished long before and the timeout was the only thing that could still happen
            if idx_done is not None and idx_done < idx_timeout and rec.get('forced_timeout'):
                v('finished-in-time-but-timeout-reported', call=ci, ended_with=end)
        if rec['still_in_func']:
            v('worker-still-running-the-function-after-return', call=ci, threads=rec['still_in_func'])
    return out


def annotate_forced(res):
    """mark calls whose outer timeout was chosen when it was the only enabled alternative"""
    forced = [t for t in res['trace'] if t[2].endswith(':timeout') and t[0] == 1]
    if forced:
        for rec in res['calls']:
            rec['forced_timeout'] = any(t[2].startswith('caller') for t in forced)


def run_case(case):
    res = dict(evals=0, states=0, trans=0, nontrivial=False, features={}, violations=[])
    feats = res['features']
    if case['shape'] == 'real_replay':
        from vf import e5_real
        return e5_real.run_case(case, _TIER[0], _FACTS[0])
    scenario = dict(calls=case['calls'])
    res['key'] = json.dumps(case, sort_keys=True)
    feats[case['shape']] = 1
    if case.get('dev') is None:
        feats['unbounded'] = 1
    flat = json.dumps(case['calls'])
    if '"s' in flat:
        feats['swallow'] = 1
    if '"n"' in flat:
        feats['native'] = 1
    if any(c['end'] not in ('ret', 'retExc') for c in case['calls']):
        feats['own_exception'] = 1

    def chk(r):
        annotate_forced(r)
        return check(scenario, r)

    out = e5.explore(scenario, chk, facts=_FACTS[0], deviation_bound=case.get('dev'), max_executions=400000)
    res['evals'] = out['executions']
    res['trans'] = out['executions']
    res['states'] = out['points']
    res['nontrivial'] = len(out['outcomes']) >= 2
    if out['capped']:
        res.setdefault('caps', {})['max_executions'] = 1
    seen = set()
    for vio in out['violations']:
        k = vio['kind']
        if k in seen:
            continue
        seen.add(k)
        res['violations'].append(dict(kind=k, case=case, detail=dict(vio['detail'] if isinstance(vio['detail'], dict) else dict(msg=vio['detail']),
                                                                    schedule=vio.get('schedule'))))
    res['sample'] = dict(case=case, schedules=out['executions'], outcomes=out['outcomes'])
    return res


def replay_case(violation):
    """vf.replay: re-run the recorded schedule only."""
    case = violation['case']
    sched = violation['detail'].get('schedule')
    worker_init('quick', 0)
    scenario = dict(calls=case['calls'])
    r = e5.run_execution(scenario, sched or [], facts=_FACTS[0])
    r2 = e5.run_execution(scenario, sched or [], facts=_FACTS[0])
    annotate_forced(r)
    annotate_forced(r2)
    a, b = check(scenario, r), check(scenario, r2)
    if [x['kind'] for x in a] != [x['kind'] for x in b]:
        return dict(violations=[dict(kind='nondeterministic-replay', detail={})])
    return dict(violations=[dict(kind=x['kind'], detail=x['detail']) for x in a])


def collect(extra, res):
    extra['impl_traces'] = extra.get('impl_traces', 0) + res.get('impl_traces', 0)
