"""
C20 -- a supplementary graph resolves to the mapped option for each source architecture.

E1 + E3: for every source spec of the scope and ALL its architectures (the real instances at the feasible leaves of its
derivation state graph), every supplementary graph of the sup grammar (1-2 sup selection choices, second permanent or nested)
with every mapping of the mapping grammar (option mappings: every total function source options (+None) -> sup options from
every source choice; existence mappings over ordered lists of <= 2 source nodes) and every registration order is resolved
and compared with the documented rule; the error alphabet must raise instead of returning a partially resolved graph.
"""
import itertools
from vf import refmodel, enumerate as en, build as vbuild, e2, observe, families
from adsg_core.graph.adsg_nodes import SelectionChoiceNode
from adsg_core.graph.graph_edges import EdgeType, get_edge_type

LEVEL = 'model_checking'
RULE = ('case = one source spec: all its architectures x all sup graphs x all mappings x all registration orders (+ error alphabet); '
        'states = (sup graph, mapping set, order) combinations, transitions = resolve calls; non-trivial = source with >= 2 architectures '
        'and a mapped choice whose selected option differs between them')
ASSUMPTIONS = ['expected option of an option mapping = mapping[option taken by the source architecture for that choice] (from the '
               'assignment made on the path to the leaf), mapping[None] if the source choice is inactive; existence mapping = first '
               'listed node that exists',
               'source choices that are resolved during initialisation (forced) cannot be mapped (add_mapping refuses them) and are skipped']
CHUNK = 6
REQUIRED_FEATURES = {'*': ['option_mapping', 'existence_mapping', 'inactive_source_choice', 'nested_sup_choice', 'two_orders', 'error_cases']}
_TIER = ['quick']


def scope_text(tier):
    return ('%s source specs (SEL-q, 1-2 choices, <= 1 extra edge) x all architectures x sup grammar (1 choice 2/3 options; 2 choices '
            'permanent / nested) x mapping grammar x both registration orders' % ('300 smallest with >= 2 architectures' if tier == 'quick' else 'all'))


def sources(tier):
    n = 0
    for spec in en.scope_specs('SEL-q'):
        if not (1 <= len(spec['choices']) <= 2) or len(spec['starts']) != 1:
            continue
        if len(refmodel.arch_keys(spec)) < (2 if tier == 'quick' else 1):
            continue
        yield spec
        n += 1
        if tier == 'quick' and n >= 300:
            return


def cases(tier, seed):
    for spec in sources(tier):
        yield dict(spec=spec)


def worker_init(tier, seed):
    _TIER[0] = tier


# ------------------------------------------------------------------ sup graphs

SUP_SHAPES = [
    dict(name='one2', choices=[('K0', 'S', ['u0', 'u1'])]),
    dict(name='one3', choices=[('K0', 'S', ['u0', 'u1', 'u2'])]),
    dict(name='two_perm', choices=[('K0', 'S', ['u0', 'u1']), ('K1', 'S', ['w0', 'w1'])]),
    dict(name='two_nested', choices=[('K0', 'S', ['u0', 'u1']), ('K1', 'u0', ['w0', 'w1'])]),
]


def build_sup(shape):
    from adsg_core.graph.sup import SupDSG, SupNode
    sup = SupDSG()
    nodes = {}

    def N(name):
        if name not in nodes:
            nodes[name] = SupNode(name)
        return nodes[name]
    sup.add_node(N('S'))
    choices = {}
    for cid, origin, opts in shape['choices']:
        choices[cid] = sup.add_selection_choice(cid, N(origin), [N(o) for o in opts])
    return sup, nodes, choices


def sup_closure(shape, taken):
    X = {'S'}
    changed = True
    while changed:
        changed = False
        for cid, origin, opts in shape['choices']:
            if origin in X and cid in taken and taken[cid] not in X:
                X.add(taken[cid])
                changed = True
    return X


# ------------------------------------------------------------------ mappings

def option_mappings(spec, cid, sup_opts, need_none):
    """every total function source options (+None) -> sup options"""
    src_opts = [o for c, _, os_ in spec['choices'] if c == cid for o in os_]
    keys = src_opts + [None]
    for vals in itertools.product(sup_opts, repeat=len(keys)):
        yield ('opt', cid, dict(zip(keys, vals)))


def existence_mappings(spec, sup_opts, present=None):
    pool = [n for n in spec['nodes'] if present is None or n in present]   # only nodes of the (initialised) source graph
    lists = [[a] for a in pool] + [[a, b] for a in pool for b in pool if a != b]
    for lst in lists:
        keys = lst + [None]
        # two target assignments: in order, and reversed
        for targets in (sup_opts, sup_opts[::-1]):
            vals = [targets[i % len(targets)] for i in range(len(keys))]
            yield ('exist', tuple(lst), dict(zip(keys, vals)))


def expected_option(mapping, arch_nodes, assign, origin_of):
    kind, key, m = mapping
    if kind == 'opt':
        if origin_of[key] not in arch_nodes or assign.get(key) is None:
            return m[None]
        return m[assign[key]]
    for n in key:
        if n in arch_nodes:
            return m[n]
    return m[None]


def make_mapping(mapping, b, sup_nodes):
    from adsg_core.graph.sup import SupSelChoiceOptionMapping, SupExistenceMapping
    kind, key, m = mapping
    conv = {(None if k is None else b.nodes[k]): sup_nodes[v] for k, v in m.items()}
    if kind == 'opt':
        return SupSelChoiceOptionMapping(b.choices[key], conv)
    # the declaration order of an existence mapping is its priority order
    ordered = {}
    for k in list(key) + [None]:
        ordered[None if k is None else b.nodes[k]] = sup_nodes[m[k]]
    return SupExistenceMapping(ordered)


def run_case(case):
    spec = case['spec']
    res = dict(evals=0, states=0, trans=0, nontrivial=False, key=en.spec_id(spec), features={}, violations=[])
    feats = res['features']
    tier = _TIER[0]

    def viol(kind, detail):
        res['violations'].append(dict(kind=kind, case=dict(spec=spec), detail=detail))

    b = vbuild.build(spec)
    src = b.dsg
    origin_of = {c: o for c, o, _ in spec['choices']}
    # all architectures: feasible leaves of the source state graph (real instances)
    states, n_tr, leaves, capped = e2.explore(b, max_states=2000)
    archs = []
    seen = set()
    for lf in leaves:
        if not lf.feasible or not lf.dsg.final:
            continue
        k = lf.gkey
        if k in seen:
            continue
        seen.add(k)
        assign = dict(b.init_auto)
        assign.update(lf.assign)
        archs.append((lf.dsg, frozenset(observe.inst_nodes(b, lf.dsg)), assign))
    if not archs:
        res['sample'] = dict(spec=spec, skipped='no feasible architecture')
        return res
    mappable = [c for c, _, _ in spec['choices'] if b.choices[c] in src.graph.nodes]
    present = {b.name(n) for n in src.graph.nodes}
    if any(origin_of[c] not in a[1] for c in mappable for a in archs):
        feats['inactive_source_choice'] = 1

    from adsg_core.graph.sup import SupInitializationError

    ambiguous_seen = []

    def resolve_all(shape, maps_by_choice, order, label):
        """build the sup graph, register the mappings in the given order, resolve every architecture"""
        sup, sup_nodes, sup_choices = build_sup(shape)
        try:
            for cid in order:
                sup.add_mapping(sup_choices[cid], src, make_mapping(maps_by_choice[cid], b, sup_nodes))
            sup = sup.set_start_nodes({sup_nodes['S']})
        except SupInitializationError as e:
            # a mapping without None is refused for a conditionally active choice; with None it must be accepted
            viol('valid-mapping-refused', dict(shape=shape['name'], maps={k: repr(v) for k, v in maps_by_choice.items()},
                                               exc=str(e)[:200]))
            return None
        except Exception as e:
            viol('sup-initialisation-raised', dict(shape=shape['name'], maps={k: repr(v) for k, v in maps_by_choice.items()},
                                                   exc=(type(e).__name__, str(e)[:200])))
            return None
        out = []
        for inst, nodes, assign in archs:
            res['trans'] += 1
            try:
                r = sup.resolve(inst)
            except Exception as e:
                ambiguous = 'could not determine which option node' in str(e)
                if not (ambiguous and ambiguous_seen):
                    viol('resolve-raised', dict(shape=shape['name'], order=order, maps={k: repr(v) for k, v in maps_by_choice.items()},
                                                arch=sorted(nodes), exc=(type(e).__name__, str(e)[:200])))
                if ambiguous:
                    # recorded once per source spec; the remaining architectures / mappings are still explored
                    ambiguous_seen.append(1)
                    out.append(None)
                    continue
                return None
            taken = {cid: expected_option(maps_by_choice[cid], nodes, assign, origin_of) for cid in maps_by_choice}
            expX = sup_closure(shape, taken)
            gotX = {n.name for n in r.graph.nodes if not isinstance(n, SelectionChoiceNode)}
            if not r.final or any(isinstance(n, SelectionChoiceNode) for n in r.graph.nodes):
                viol('resolved-graph-not-final', dict(shape=shape['name'], order=order, arch=sorted(nodes)))
                return None
            if gotX != expX:
                viol('resolved-to-wrong-option', dict(shape=shape['name'], order=order, arch=sorted(nodes), assign=assign,
                                                      maps={k: repr(v) for k, v in maps_by_choice.items()},
                                                      expected=sorted(expX), got=sorted(gotX)))
                return None
            out.append(frozenset(gotX))
        return out

    varied = False
    for shape in SUP_SHAPES:
        c0 = shape['choices'][0]
        first_maps = []
        for cid in mappable:
            first_maps += list(option_mappings(spec, cid, c0[2], True))
        ex = list(existence_mappings(spec, c0[2], present))
        if tier == 'quick':
            ex = ex[:12]
            if len(c0[2]) == 3:
                first_maps = first_maps[::5]
        first_maps += ex
        if len(shape['choices']) == 1:
            for m in first_maps:
                res['states'] += 1
                res['evals'] += 1
                feats['option_mapping' if m[0] == 'opt' else 'existence_mapping'] = 1
                out = resolve_all(shape, {'K0': m}, ['K0'], 'single')
                if out is None:
                    return res
                if len({o for o in out if o is not None}) >= 2:
                    varied = True
        else:
            c1 = shape['choices'][1]
            if shape['name'] == 'two_nested':
                feats['nested_sup_choice'] = 1
            second = []
            for cid in mappable[:1]:
                second += list(option_mappings(spec, cid, c1[2], True))[:3]
            second += list(existence_mappings(spec, c1[2], present))[:2]
            fm = first_maps if tier != 'quick' else first_maps[::3]
            for m0 in fm:
                for m1 in second:
                    res['states'] += 2
                    res['evals'] += 2
                    feats['two_orders'] = 1
                    a = resolve_all(shape, {'K0': m0, 'K1': m1}, ['K0', 'K1'], 'order01')
                    if a is None:
                        return res
                    bb = resolve_all(shape, {'K0': m0, 'K1': m1}, ['K1', 'K0'], 'order10')
                    if bb is None:
                        return res
                    if any(x != y for x, y in zip(a, bb) if x is not None and y is not None):
                        viol('result-depends-on-registration-order', dict(shape=shape['name'], maps=[repr(m0), repr(m1)]))
                        return res
    res['nontrivial'] = varied and len(archs) >= 2

    # ---- error alphabet: must raise, never return a (partially) resolved graph
    from adsg_core.graph.sup import SupSelChoiceOptionMapping, SupExistenceMapping
    feats['error_cases'] = 1
    shape = SUP_SHAPES[0]

    def expect_error(label, thunk, allowed=(RuntimeError,)):
        res['evals'] += 1
        try:
            r = thunk()
        except allowed:
            return True
        except Exception as e:
            viol('error-case-wrong-exception', dict(case=label, exc=(type(e).__name__, str(e)[:200])))
            return False
        viol('error-case-accepted', dict(case=label))
        return False

    if mappable:
        cid = mappable[0]
        # the options the source GRAPH offers (an option removed at initialisation needs no mapping entry)
        live_opts = {b.name(o) for o in src.get_option_nodes(b.choices[cid])}
        src_opts = [o for c, _, os_ in spec['choices'] if c == cid for o in os_ if o in live_opts]
        cond = bool(src.has_conditional_existence(b.choices[cid]))
        # one source option unmapped
        if len(src_opts) >= 2:
            def t1():
                sup, sn, sc = build_sup(shape)
                m = {b.nodes[o]: sn['u0'] for o in src_opts[:-1]}
                m[None] = sn['u1']
                sup.add_mapping(sc['K0'], src, SupSelChoiceOptionMapping(b.choices[cid], m))
                return sup.set_start_nodes({sn['S']})
            if not expect_error('source-option-unmapped', t1):
                return res
        # None missing for a conditionally active source choice
        if cond:
            def t2():
                sup, sn, sc = build_sup(shape)
                m = {b.nodes[o]: sn['u0'] for o in src_opts}
                sup.add_mapping(sc['K0'], src, SupSelChoiceOptionMapping(b.choices[cid], m))
                return sup.set_start_nodes({sn['S']})
            if not expect_error('none-missing-for-conditional-choice', t2):
                return res

        # target is not an option of the sup choice
        def t3():
            sup, sn, sc = build_sup(shape)
            m = {b.nodes[o]: sn['u0'] for o in src_opts}
            m[None] = sn['S']
            sup.add_mapping(sc['K0'], src, SupSelChoiceOptionMapping(b.choices[cid], m))
            return sup.set_start_nodes({sn['S']})
        if not expect_error('target-not-an-option', t3):
            return res

        # duplicate mapping of one sup choice
        def t4():
            sup, sn, sc = build_sup(shape)
            m = {b.nodes[o]: sn['u0'] for o in src_opts}
            m[None] = sn['u1']
            sup.add_mapping(sc['K0'], src, SupSelChoiceOptionMapping(b.choices[cid], dict(m)))
            sup.add_mapping(sc['K0'], src, SupSelChoiceOptionMapping(b.choices[cid], dict(m)))
            return sup.set_start_nodes({sn['S']})
        if not expect_error('duplicate-mapping', t4):
            return res

        # unmapped sup choice
        def t5():
            sup, sn, sc = build_sup(SUP_SHAPES[2])
            m = {b.nodes[o]: sn['u0'] for o in src_opts}
            m[None] = sn['u1']
            sup.add_mapping(sc['K0'], src, SupSelChoiceOptionMapping(b.choices[cid], m))
            return sup.set_start_nodes({sn['S']})
        if not expect_error('unmapped-sup-choice', t5):
            return res

        # non-final source
        def t6():
            sup, sn, sc = build_sup(shape)
            m = {b.nodes[o]: sn['u0'] for o in src_opts}
            m[None] = sn['u1']
            sup.add_mapping(sc['K0'], src, SupSelChoiceOptionMapping(b.choices[cid], m))
            sup = sup.set_start_nodes({sn['S']})
            return sup.resolve(src)
        if not src.final and not expect_error('non-final-source', t6):
            return res

    # existence mapping without None / with an unknown source node
    def t7():
        sup, sn, sc = build_sup(shape)
        sup.add_mapping(sc['K0'], src, SupExistenceMapping({b.nodes[spec['nodes'][0]]: sn['u0']}))
        return sup.set_start_nodes({sn['S']})
    if spec['nodes'] and spec['nodes'][0] in present and not expect_error('existence-mapping-without-none', t7):
        return res
    res['sample'] = dict(spec=spec, architectures=len(archs), mappable_choices=mappable)
    return res
