"""
Check runner: enumerates the cases of a property module completely, runs them on a pool of
fresh worker interpreters (explicit PYTHONHASHSEED, private XDG_CACHE_HOME), aggregates the
counters into /verif/evidence/<id>.json, writes replay files for violations, applies the
known-findings file, and sets the exit status.

    python -m vf.runner C09 quick
"""
import os
import sys
import json
import time
import shutil
import hashlib
import tempfile
import importlib
import itertools
import subprocess
import multiprocessing as mp

VERIF = os.path.dirname(os.path.dirname(os.path.abspath(__file__)))
REPO = os.environ.get('VERIF_REPO', '/repo')   # registered commands always use /repo; discovery runs may point to a snapshot
MAX_REPORT_PER_KIND = 20


def jdump(obj):
    return json.dumps(obj, sort_keys=True, default=_jsonable)


def _jsonable(o):
    import numpy as np
    if isinstance(o, (np.integer,)):
        return int(o)
    if isinstance(o, (np.floating,)):
        return float(o)
    if isinstance(o, (np.bool_,)):
        return bool(o)
    if isinstance(o, np.ndarray):
        return o.tolist()
    if isinstance(o, (set, frozenset)):
        return sorted(o, key=repr)
    if isinstance(o, tuple):
        return list(o)
    return repr(o)


def signature(prop, violation):
    """Exact signature of a violation: property, failure kind, the case (input) and the detail."""
    payload = jdump([prop, violation.get('kind'), violation.get('case'), violation.get('detail')])
    return hashlib.sha1(payload.encode()).hexdigest()[:16]


def case_signature(prop, violation):
    payload = jdump([prop, violation.get('kind'), violation.get('case')])
    return hashlib.sha1(payload.encode()).hexdigest()[:16]


# ------------------------------------------------------------------------------------------------
# worker side
# ------------------------------------------------------------------------------------------------

_MOD = None


def _worker_init(prop, tier, seed):
    global _MOD
    # private disk cache per worker process (two workers must never share adsg_core's on-disk caches)
    os.environ['XDG_CACHE_HOME'] = os.path.join(os.environ['XDG_CACHE_HOME'], f'w{os.getpid()}')
    os.makedirs(os.environ['XDG_CACHE_HOME'], exist_ok=True)
    import warnings
    warnings.filterwarnings('ignore')
    sys.stdout = open(os.devnull, 'w')   # the library prints diagnostics on errors; results travel through the pool
    import numpy as np
    import random
    np.random.seed(seed)
    random.seed(seed)
    _MOD = importlib.import_module(f'vf.props.{prop.lower()}')
    if hasattr(_MOD, 'worker_init'):
        _MOD.worker_init(tier, seed)


def _run_chunk(chunk):
    out = []
    for case in chunk:
        t0 = time.time()
        try:
            res = _MOD.run_case(case)
        except Exception as e:  # harness error: never silently dropped
            import traceback
            res = dict(evals=0, harness_error=traceback.format_exc(limit=8), case=case)
        res['_t'] = time.time()-t0
        out.append(res)
    return out


# ------------------------------------------------------------------------------------------------
# parent side
# ------------------------------------------------------------------------------------------------

def load_known(prop):
    path = os.path.join(VERIF, 'known_findings.json')
    if not os.path.exists(path):
        return []
    with open(path) as fp:
        data = json.load(fp)
    return [e for e in data.get('findings', []) if e.get('property') == prop]


def chunks(it, n):
    it = iter(it)
    while True:
        c = list(itertools.islice(it, n))
        if not c:
            return
        yield c


def main(argv=None):
    argv = argv or sys.argv[1:]
    prop = argv[0].upper()
    tier = argv[1] if len(argv) > 1 else os.environ.get('VERIF_TIER', 'quick')
    if tier not in ('quick', 'thorough'):
        tier = 'quick'
    seed = int(os.environ.get('VERIF_SEED', '0') or 0)
    n_workers = int(os.environ.get('VERIF_WORKERS', str(min(16, os.cpu_count() or 1))))

    # Own the environment: hash seed and private cache directory for every worker
    # (on a memory file system when there is one with room: the library writes one small file per connector setting and
    # scenario, C09 creates ~10^5 of them, and deleting them from disk afterwards took longer than the exploration)
    cache_root = None
    try:
        st = os.statvfs('/dev/shm')
        if os.access('/dev/shm', os.W_OK) and st.f_bavail * st.f_frsize > 8 * 2**30 and not os.environ.get('VERIF_CACHE_ON_DISK'):
            cache_root = '/dev/shm'
    except OSError:
        pass
    cache_dir = tempfile.mkdtemp(prefix=f'vf_{prop}_', dir=cache_root)
    os.environ['XDG_CACHE_HOME'] = cache_dir
    # The hash seed is part of the explored configuration where a property quantifies over it (C05, C18: seeds
    # enumerated explicitly in sub-processes); everywhere else it is pinned so that a run -- and the signatures of the
    # known findings -- are reproducible for every VERIF_SEED (VERIF_SEED never selects which cases are run).
    os.environ['PYTHONHASHSEED'] = os.environ.get('VERIF_HASHSEED', '0')
    os.environ['ADSG_CORE_VERIF'] = '1'
    os.environ.setdefault('NUMBA_CACHE_DIR', os.path.join(cache_dir, 'numba'))
    os.environ['PYTHONPATH'] = VERIF + os.pathsep + os.environ.get('PYTHONPATH', '')
    sys.path.insert(0, VERIF)

    t_start = time.time()
    rc = 2
    try:
        rc = _run(prop, tier, seed, n_workers, t_start)
    finally:
        shutil.rmtree(cache_dir, ignore_errors=True)
        if os.path.exists(cache_dir):     # a terminating worker may re-create its (empty) directory: once more
            time.sleep(0.5)
            shutil.rmtree(cache_dir, ignore_errors=True)
    return rc


def _run(prop, tier, seed, n_workers, t_start):
    mod = importlib.import_module(f'vf.props.{prop.lower()}')
    import adsg_core
    assert os.path.realpath(adsg_core.__file__).startswith(REPO + '/'), adsg_core.__file__
    try:
        head = subprocess.run(['git', '-C', REPO, 'rev-parse', 'HEAD'], capture_output=True, text=True).stdout.strip()
        dirty = bool(subprocess.run(['git', '-C', REPO, 'status', '--porcelain', '-uno'], capture_output=True,
                                    text=True).stdout.strip())
    except Exception:
        head, dirty = '?', None

    if hasattr(mod, 'preamble'):
        mod.preamble(tier, seed)

    chunk_size = getattr(mod, 'CHUNK', 20)
    agg = dict(cases=0, evals=0, states=0, trans=0, nontrivial=0, features={}, t_case_max=0.0, extra={})
    nontrivial_keys = set()
    violations = []
    n_viol_total = 0
    harness_errors = []
    samples = []
    caps = {}
    per_kind = {}

    ctx = mp.get_context('spawn')
    gen = mod.cases(tier, seed)
    with ctx.Pool(n_workers, initializer=_worker_init, initargs=(prop, tier, seed)) as pool:
        for results in pool.imap_unordered(_run_chunk, chunks(gen, chunk_size)):
            for res in results:
                agg['cases'] += 1
                if 'harness_error' in res:
                    if len(harness_errors) < 5:
                        harness_errors.append(res)
                    continue
                agg['evals'] += res.get('evals', 0)
                agg['states'] += res.get('states', 0)
                agg['trans'] += res.get('trans', 0)
                agg['t_case_max'] = max(agg['t_case_max'], res.get('_t', 0.0))
                if res.get('nontrivial'):
                    k = res.get('key')
                    if k is None or k not in nontrivial_keys:
                        agg['nontrivial'] += 1
                        if k is not None:
                            nontrivial_keys.add(k)
                for f, c in res.get('features', {}).items():
                    agg['features'][f] = agg['features'].get(f, 0) + c
                for c, v in res.get('caps', {}).items():
                    caps[c] = caps.get(c, 0) + v
                if hasattr(mod, 'collect'):
                    mod.collect(agg['extra'], res)
                if 'sample' in res and (len(samples) < 3 or (agg['cases'] % 997 == 0 and len(samples) < 8)):
                    samples.append(res['sample'])
                for v in res.get('violations', []):
                    n_viol_total += 1
                    kind = v.get('kind')
                    per_kind[kind] = per_kind.get(kind, 0) + 1
                    violations.append(v)   # all of them: known-finding matching must see every violation

    if hasattr(mod, 'finalize'):
        for v in mod.finalize(agg, tier) or []:
            n_viol_total += 1
            violations.append(v)

    wall = time.time()-t_start

    # ---- known findings
    known = load_known(prop)
    known_exact = {}
    known_case = {}
    for e in known:
        if e.get('status') != 'known':
            continue
        for s in e.get('signatures', []):
            (known_case if e.get('match') == 'kind' else known_exact)[s] = e
    hit_entries = {}
    new_violations = []
    for v in violations:
        s, cs = signature(prop, v), case_signature(prop, v)
        e = known_exact.get(s) or known_case.get(cs)
        if e is not None:
            hit_entries[e['id']] = e
        else:
            v['_sig'], v['_case_sig'] = s, cs
            new_violations.append(v)
    # simplest first: smaller case JSON first
    new_violations.sort(key=lambda v: (len(jdump(v.get('case'))), v.get('kind') or '', jdump(v.get('case'))))

    # ---- replay files (at most MAX_REPORT_PER_KIND per kind)
    replay_dir = os.path.join(VERIF, 'replays', prop)
    if os.environ.get('VERIF_DUMP_ALL') == '1':   # triage aid (not evidence): every violation of this run
        os.makedirs(replay_dir, exist_ok=True)
        with open(os.path.join(replay_dir, f'_all_{tier}.jsonl'), 'w') as fp:
            for v in violations:
                fp.write(json.dumps(dict(sig=signature(prop, v), case_sig=case_signature(prop, v),
                                         known=signature(prop, v) in known_exact or case_signature(prop, v) in known_case,
                                         kind=v.get('kind'), case=v.get('case'), detail=v.get('detail')),
                                    sort_keys=True, default=_jsonable)+'\n')
    reported = []
    kind_count = {}
    for v in new_violations:
        kind = v.get('kind')
        kind_count[kind] = kind_count.get(kind, 0) + 1
        if kind_count[kind] > MAX_REPORT_PER_KIND:
            continue
        os.makedirs(replay_dir, exist_ok=True)
        path = os.path.join(replay_dir, f"{v['_sig']}.json")
        with open(path, 'w') as fp:
            fp.write(json.dumps(dict(property=prop, tier=tier, seed=seed, hash_seed=os.environ['PYTHONHASHSEED'],
                                     signature=v['_sig'], case_signature=v['_case_sig'],
                                     violation={k: x for k, x in v.items() if not k.startswith('_')}),
                                indent=1, sort_keys=True, default=_jsonable))
        reported.append((v, path))

    # ---- confirm the first few in a fresh process (a failure must reproduce)
    broken = []
    if os.environ.get('VERIF_NO_CONFIRM') != '1':
        for v, path in reported[:3]:
            r = subprocess.run([sys.executable, '-m', 'vf.replay', path], capture_output=True, text=True,
                               env=os.environ.copy(), cwd=VERIF)
            if r.returncode != 1:
                broken.append(f'violation {path} did not reproduce in a fresh process (rc={r.returncode}): '
                              f'{r.stdout[-300:]} {r.stderr[-300:]}')

    # ---- evidence
    exhaustive = not caps and not harness_errors and bool(getattr(mod, 'EXHAUSTIVE', True))
    coverage = dict(
        evaluations=agg['evals'],
        distinct_nontrivial=agg['nontrivial'],
        rule=getattr(mod, 'RULE', ''),
        samples=samples[:8] or [None],
        states=agg['states'],
        transitions=agg['trans'],
        traces_validated_against_impl=agg['evals'] if getattr(mod, 'ALL_ON_IMPL', True) else agg['extra'].get('impl_traces', 0),
        exhaustive=exhaustive,
        cases=agg['cases'],
        features=agg['features'],
        caps_hit=caps,
        scope=mod.scope_text(tier) if hasattr(mod, 'scope_text') else '',
        repo_head=head, repo_dirty=dirty, workers=n_workers, hash_seed=int(os.environ['PYTHONHASHSEED']),
        slowest_case_s=round(agg['t_case_max'], 3),
        known_findings_hit=sorted(hit_entries),
        violations_total=n_viol_total,
        violation_kinds=per_kind,
    )
    for k, v in agg['extra'].items():
        if isinstance(v, (int, float, str, list, dict)) and not k.startswith('_'):
            coverage.setdefault(k, v)
    evidence = dict(property_id=prop, tier=tier, seed=seed, level=getattr(mod, 'LEVEL', 'model_checking'),
                    coverage=coverage, assumptions=list(getattr(mod, 'ASSUMPTIONS', [])),
                    wall_s=round(wall, 2), violations=len(new_violations))
    os.makedirs(os.path.join(VERIF, 'evidence'), exist_ok=True)
    ev_path = os.path.join(VERIF, 'evidence', f'{prop}.json')
    with open(ev_path, 'w') as fp:
        fp.write(json.dumps(evidence, indent=1, sort_keys=True, default=_jsonable))
    _validate_evidence(ev_path)

    # ---- vacuity guards
    for feat in getattr(mod, 'REQUIRED_FEATURES', {}).get(tier, getattr(mod, 'REQUIRED_FEATURES', {}).get('*', [])):
        if agg['features'].get(feat, 0) == 0:
            broken.append(f'vacuity guard: feature {feat!r} never exercised')
    if agg['cases'] == 0:
        broken.append('no cases enumerated')

    print(f'[{prop} {tier}] cases={agg["cases"]} evaluations={agg["evals"]} states={agg["states"]} '
          f'transitions={agg["trans"]} nontrivial={agg["nontrivial"]} violations={n_viol_total} '
          f'new={len(new_violations)} wall={wall:.1f}s exhaustive={exhaustive}')
    if agg['features']:
        print(f'[{prop}] features: ' + ' '.join(f'{k}={v}' for k, v in sorted(agg['features'].items())))
    for e in hit_entries.values():
        print(f"KNOWN-FINDING: property={prop} {e['id']}: {e['what']}")
    for he in harness_errors:
        print('HARNESS ERROR in case', jdump(he.get('case'))[:400])
        print(he['harness_error'])
    if harness_errors:
        broken.append(f'{len(harness_errors)}+ harness errors')
    for msg in broken:
        print('BROKEN:', msg)
    for v, path in reported:
        print(f'VIOLATION property={prop} replay={path}')
        print(f'   kind={v.get("kind")} detail={jdump(v.get("detail"))[:300]}')
    if new_violations:
        return 1
    if broken:
        return 3
    return 0


def _validate_evidence(path):
    vt = shutil.which('python3-vt')
    if not vt:
        return
    code = ("import json,sys,jsonschema;"
            "jsonschema.validate(json.load(open(sys.argv[1])), json.load(open('/root/.vp/EVIDENCE.schema.json')))")
    if not os.path.exists('/root/.vp/EVIDENCE.schema.json'):
        return
    r = subprocess.run([vt, '-c', code, path], capture_output=True, text=True)
    if r.returncode != 0:
        print('BROKEN: evidence does not validate:', r.stderr[-500:])


if __name__ == '__main__':
    sys.exit(main())
