"""
E1 helper shared by the processor-level checks: build the real graph of a spec, create the real
GraphProcessor and record the complete decode table over the declared design space.
"""
import itertools
import numpy as np

from vf import build as vbuild
from vf import observe

MAX_SPACE = 4096
EXPLICIT_ERRORS = (ValueError, RuntimeError)


def enc_type(name):
    from adsg_core.optimization.hierarchy import SelChoiceEncoderType
    return SelChoiceEncoderType[name]


def make_processor(dsg, enc):
    from adsg_core.optimization.graph_processor import GraphProcessor
    gp = GraphProcessor(dsg, encoder_type=enc_type(enc) if enc else None)
    _ = gp.des_vars
    return gp


def dv_values(dv, cont_alphabet='std'):
    if dv.is_discrete:
        return list(range(dv.n_opts))
    lo, hi = dv.bounds
    return [lo, lo+.25*(hi-lo), hi]


def declared_space(des_vars):
    return [dv_values(dv) for dv in des_vars]


class Table:
    """Decode table of one (spec, encoder)."""

    def __init__(self):
        self.b = None
        self.gp = None
        self.refused = None       # (exception class name, message) if the processor refused the graph
        self.build_error = None   # unexpected exception while building / constructing
        self.des_vars = []
        self.rows = []            # dict(x, x_imp, act, key, final, feasible, exc, inst)
        self.skipped_too_large = False


def decode_table(spec, enc, ids=None, keep_instances=False, with_dv_key=False, create=True, space=None):
    t = Table()
    try:
        t.b = vbuild.build(spec, ids=ids)
    except Exception as e:
        t.build_error = ('build', type(e).__name__, str(e)[:200])
        return t
    try:
        t.gp = make_processor(t.b.dsg, enc)
    except EXPLICIT_ERRORS as e:
        t.refused = (type(e).__name__, str(e)[:200])
        return t
    except Exception as e:
        t.build_error = ('processor', type(e).__name__, str(e)[:200])
        return t
    t.des_vars = list(t.gp.des_vars)
    sp = space if space is not None else declared_space(t.des_vars)
    size = 1
    for vals in sp:
        size *= len(vals)
    if size > MAX_SPACE:
        t.skipped_too_large = True
        return t
    for x in itertools.product(*sp):
        row = decode_row(t, list(x), create=create, keep_instance=keep_instances, with_dv_key=with_dv_key)
        t.rows.append(row)
    return t


def decode_row(t, x, create=True, keep_instance=False, with_dv_key=False):
    row = dict(x=tuple(x), exc=None)
    try:
        inst, x_imp, act = t.gp.get_graph(list(x), create=create)
    except Exception as e:
        row['exc'] = (type(e).__name__, str(e)[:200])
        return row
    row['x_imp'] = observe.clean_x(x_imp)
    row['act'] = tuple(bool(a) for a in act)
    if inst is not None:
        row['key'] = observe.inst_key(t.b, inst, with_dv=with_dv_key)
        row['final'] = bool(inst.final)
        row['feasible'] = bool(inst.feasible)
        row['left'] = observe.remaining_choices(t.b, inst)
        row['excl_edges'] = observe.other_edges(t.b, inst)
        row['dv_values'] = tuple(sorted((t.b.name(n), v) for n, v in inst.des_var_values.items()))
        if keep_instance:
            row['inst'] = inst
    return row


def enum_table(gp):
    """get_all_discrete_x and the counting API, as plain data (None if not available)."""
    out = {}
    res = gp.get_all_discrete_x()
    if res is None:
        out['rows'] = None
    else:
        x, act = res
        out['rows'] = [observe.clean_x(r) for r in x]
        out['act'] = [tuple(bool(a) for a in r) for r in act]
    out['n_valid'] = int(gp.get_n_valid_designs())
    out['n_space'] = int(gp.get_n_design_space())
    out['imp_ratio'] = float(gp.get_imputation_ratio(include_cont=False))
    return out
