#!/bin/sh
# discovery run of all thorough tiers (from a snapshot); dumps every violation for triage
for p in C14 C05 C12 C15; do
  s=$(date +%s)
  VERIF_DUMP_ALL=1 VERIF_NO_CONFIRM=1 ./check $p thorough > out_$p.txt 2>&1
  echo "$p rc=$? $(( $(date +%s)-s ))s $(grep "^\[$p thorough\]" out_$p.txt | cut -c1-220) viol=$(grep -c '^VIOLATION' out_$p.txt) broken=$(grep -c '^BROKEN' out_$p.txt)"
done
