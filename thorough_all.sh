#!/bin/sh
# discovery run of all thorough tiers (from a snapshot); dumps every violation for triage
for p in C02 C06 C13 C17 C16 C08 C18 C20 C19 C01 C04 C07 C03 C09 C12 C10 C11 C14 C15 C05; do
  s=$(date +%s)
  VERIF_DUMP_ALL=1 VERIF_NO_CONFIRM=1 ./check $p thorough > out_$p.txt 2>&1
  echo "$p rc=$? $(( $(date +%s)-s ))s $(grep "^\[$p thorough\]" out_$p.txt | cut -c1-220) viol=$(grep -c '^VIOLATION' out_$p.txt) broken=$(grep -c '^BROKEN' out_$p.txt)"
done
