#!/bin/sh
# tools/try_seed.sh <seed id> <check> [tier] : apply seeded patch to /repo, run one check, revert (no meta update)
sid=$1; chk=$2; tier=${3:-quick}
[ -z "$(git -C /repo status --porcelain -uno)" ] || { echo "repo not clean"; exit 2; }
git -C /repo apply /verif/seeded/$sid/patch.diff || exit 2
cd /verif && VERIF_NO_CONFIRM=1 ./check $chk $tier 2>&1 | grep "^\[$chk \|^VIOLATION\|BROKEN\|HARNESS\|kind=" | cut -c1-260 | awk '!/^VIOLATION/ || ++n<=3' | head -12
git -C /repo checkout -- .
cd /verif && git checkout -- evidence 2>/dev/null
