#!/venv/bin/python
"""
Writes the 'change' / 'needs' summaries into seeded/<id>/meta.json and prints the markdown table used in DESIGN.md 0.5.
    tools/seed_table.py            -> table on stdout (and meta.json files updated)
"""
import json, os, glob

S = {
 'S01': ('complete.py::_find_correct_opt_idx: the closest-combination correction aliases the shared set of possible combinations',
         'complete encoder, a choice constraint that leaves value combinations of the first independent scenario missing, a vector hitting one, and one more scenario processed afterwards'),
 'S03': ('GraphProcessor.get_graph: graph-cache key forgets all but the last connection choice',
         '>= 3 connection choices active together; two decodes on one processor that agree on the last two choices and differ in an earlier one'),
 'S04': ('GraphProcessor.fix_des_var clears only three of the four cached functions',
         'an additional design-variable node that is fixed/released, same processor queried with_fixed=True in two fixed states'),
 'S05': ('fast.py::get_graph: imputation-cache lookup moved before the exclude test',
         'FAST encoder, infeasible combination detected while building, history decode(v) / fix the variable the imputation changed / decode again'),
 'S06': ('incompatibility.py: `or`->`and` in get_confirmed_incompatibility_edges + rebinding instead of in-place update of removed_edges (two cooperating sites)',
         'option K that derives A and has a nested choice all of whose options derive Z, A incompatible with Z, K confirmed through get_for_apply_selection_choice'),
 'S07': ('AssignmentManager._mark_inactive memoises inactive indices per matrix index only',
         'conditionally existing connectors (several existence patterns in one manager), grouped eager encoder, designs of two patterns decoded through one manager'),
 'S08': ('grouping-node degree refresh moved into the conditional-existence helper',
         'grouping connector with conditional members, two live graphs with different member sets, connection sets read from the older graph before feasibility'),
 'S09': ('iter_n_sources_targets forwards the existence filter and caches the partial table',
         '>= 2 existence patterns, a filtered enumeration as FIRST access of a cold cache, then any other enumeration/count'),
 'S10': ('CombiningPatternEncoder: per-instance min/max table became a class attribute',
         'two collapsed 1x1 combining encoders alive together with different ranges, the older one used again'),
 'S11': ('ConnectionChoiceNode caches its matrix generator keyed by the connector lists',
         'grouping node with conditional members, graph-level API used on instances of two scenarios in one process'),
 'S12': ('MatrixGenSettings.get_cache_key sorts the per-pattern hashes',
         'two settings that differ only in the ORDER of their existence patterns sharing a cache directory'),
 'S13': ('get_valid_idx_combinations compares neighbouring columns only',
         'constraint over >= 3 choices with an inactive member BETWEEN two active ones, complete encoder'),
 'S14': ('fast.py: partial-graph cache keyed by the vector prefix instead of the options taken',
         'nested choice applied before a later same-level choice; two decodes on one processor differing only in the nested choice'),
 'S15': ('fixed-combination mask computed with the variable index instead of the choice index',
         'COMPLETE encoder, a forced selection choice (no variable) in front of the fixed selection variable'),
 'S16': ('DSG.__init__ drops the copy of the design-variable value dict',
         'two graphs deriving from one base graph and an observation that spans both (older instance re-read)'),
 'S17': ('evaluator keeps entries for metric nodes that are not part of the architecture',
         'conditional constraint metric, architecture without it, evaluator returning values for ALL metric nodes of the design space'),
 'S18': ('get_for_adjusted shares the constraint list between original and copy',
         'graph that ALREADY holds a constraint is copied, then a second constraint is added on one side'),
 'S19': ('thread.join(timeout=seconds) instead of an unbounded join',
         'worker that swallows the interrupt / blocks natively longer than the join timeout'),
 'S20': ('SupExistenceMapping.resolve iterates graph nodes instead of the declared mapping order',
         'existence mapping with >= 2 declared nodes that both exist, graph node order != declaration order'),
 'S21': ('GraphProcessor._get_des_vars: infeasibility mask overwritten per connection choice instead of accumulated',
         'complete encoder, >= 2 connection choices, an infeasible existence pattern on one that is not the last'),
 'S22': ('set_start_nodes reachability walk follows all successors (also incompatibility edges)',
         'non-derivable component containing a derivation cycle, referenced by an incompatibility constraint from a derivable node'),
 'S23': ('GraphProcessor.get_graph: activeness of selection variables read at the variable position instead of the choice position',
         'forced selection choice (LINKED follower / incompatibility-determined) in front of a conditionally active choice'),
 'S24': ('get_all_discrete_x builds the row->combination map after filtering',
         'a combination dropped by the infeasible/fixed filter that is not the last, followed by a combination with a dv node or a multi-matrix pattern'),
 'S25': ('get_graph no longer marks a freshly cached connection instance as cached (defensive copy skipped)',
         '>= 2 active connection choices, no dv node, history decode(0,0) / decode(0,1) / mutate the returned instance / decode(0,1)'),
 'S26': ('get_mod_nodes_remove_incompatibilities keeps one confirmed incompatibility edge per source node',
         'one node in >= 2 incompatibility constraints whose partners are derived below options of other choices; graph-level API'),
 'S27': ('same change as S23 (offered for C07)', 'as S23; COMPLETE reports a non-existing choice active with value -1'),
 'S28': ('DSG.__init__: `(values or {}).copy()` -> `values or {}` for both value dicts',
         'source graph that already HOLDS a stored value is copied / derived from, then a value is stored on either side'),
 'S29': ('NodeExistence effective settings: an overridden connector loses its no-repeat flag',
         'existence pattern with a degree override on a non-repeatable connector, override value >= 2, repeatable opposite connector'),
 'S30': ('LazyFirstImputer memo keyed by the variable layout instead of the existence pattern',
         'non-default first-imputer, two existence patterns with equal variable layout and different valid sets, imputation in pattern A before B'),
 'S31': ('ConnectorDegreeGroupingNode.get_combined_deg returns the range min-sum..max-sum',
         'grouping node with >= 2 present members, one with a NON-CONTIGUOUS degree list ([0,2], [1,3])'),
 'S32': ('same site as S09 (offered for C12): partial _iter_n table persisted',
         'as S09, followed by cached selection: coding raises / misses connection sets'),
 'S33': ('get_constraint_pre_removed_options: `all permanent` guard became `any permanent`',
         'constraint over a MIX of permanent and conditional choices (UNORDERED_NOREPL / PERMUTATION)'),
 'S34': ('GraphProcessor._excluded_cache became a class-level set shared by all processors',
         'one process: a FAST processor that excludes vectors, then another design space of the same shape decoded with FAST'),
 'S35': ('_get_all_des_var_values merges fixed values with list.insert in fixing order',
         '>= 2 variables fixed, the higher index fixed first (or fix, fix, free, re-fix)'),
 'S36': ('set_des_var_value stores the corrected value but propagates the raw value to linked nodes',
         '>= 2 discrete dv nodes under a LINKED constraint, out-of-range / negative / non-integer input, partner node read'),
 'S37': ('_get_metrics: declared type of the previous metric leaks to an undeclared one',
         '>= 2 metrics, a declared one sorting before an undeclared ambiguous one'),
 'S38': ('DSG.__hash__ over frozenset(g.edges()) collapses parallel edges',
         'an edge gained or lost in parallel to an existing edge between the same nodes'),
 'S39': ('`raise _TimeLimitReached` moved inside `if thread.is_alive()`',
         'function finishing just past the limit while the limiter tears its pool down: None returned instead of TimeoutError'),
 'S41': ('GraphProcessor.get_graph: connection-stage cache key no longer contains the choice node',
         '>= 2 connection choices WITHOUT design variables (exactly one valid set) active together and adjacent in processing order'),
 'S42': ('DSG.set_influence_matrix keeps an existing influence matrix of the same object',
         'an initialised BasicDSG edited in place with plain derivation edges and initialised again'),
 'S43': ('LazyImputer cache key built from the existence masks only (degree overrides dropped)',
         'grouping node over a permanent and a conditional connector (same mask, different overridden degree), lazy non-pattern encoder, the same invalid sub-vector decoded under both patterns on one processor'),
 'S44': ('get_additional_dv_stats multiplies over all dv columns (continuous columns hold 0 when inactive)',
         'a discrete dv node plus a conditionally active continuous dv node; n_valid / imputation ratio'),
 'S45': ('fix_des_var refreshes the fixed-combination mask only `if idx in _sel_choice_idx_map`',
         'COMPLETE encoder, forced selection choice in front of a non-forced one, fix/free of the later variable'),
 'S46': ('get_incompatibility_deriving_nodes memoised per target node in the shared cache',
         'two incompatibility constraints on different options, one node deriving both targets, a second deriver visited earlier, a choice behind the wrongly removed nodes'),
 'S47': ('EagerEncoder.get_matrix returns a view of the stored design vectors + _correct_is_active writes through np.asarray (two cooperating sites)',
         'eager encoder with inactive variables, imputation ratio > 1, a raw vector imputed onto design X earlier in the same process, then any other route to X'),
 'S48': ('InfluenceMatrix.apply_selection_choice: early return for an option-less choice writes into the shared status array',
         'over-constraining constrain_choices on a COPY (3 choices x 2 options, UNORDERED_NOREPL): the original loses its next choices'),
 'S49': ('_validate_matrix: branch "more connections than the overridden list holds" removed',
         'degree override on an OPEN-ENDED connector and a row/column sum beyond the override table'),
 'S50': ('QuasiLazyEncoder._get_all_design_vectors: `.get(existence) or self.design_vars`',
         'enumerating encoder, existence pattern with exactly one valid matrix next to a pattern with >= 2'),
 'S51': ('NodeExistence.get_effective_settings: `continue` -> `break` when an excluded pair touches an absent connector',
         '>= 2 exclusion edges, an earlier-listed one touching a conditional connector that is absent in some scenario'),
 'S52': ('EncoderSelector._get_best (by information index): positional argmax used as a pandas label',
         'score table in which no candidate has a distance correlation (fallback stages 2 / 4) and the winner is not a leading row'),
 'S53': ('fast.py::_get_selection_choice_is_forced: sorted() dropped (master of a LINKED group by name order)',
         'LINKED over a conditional choice that sorts first by name and a permanent one; FAST encoder'),
 'S54': ('same change as S53 (offered for C14)', 'as S53: 2 of 6 architectures reachable with FAST'),
 'S55': ('_update_comb_fixed_mask passes design-variable indices instead of choice indices',
         'COMPLETE encoder, forced selection choice in front of the fixed variable'),
 'S56': ('DesignVariableNode.correct_value clamps before int(round())',
         'set_des_var_value on a graph with a non-integer value in (len-0.5, len)'),
 'S57': ('get_non_confirmed_nodes walks all out-edges (also EXCLUDES / INCOMPATIBILITY)',
         'metric derived from a conditional connector that is the target of an exclusion edge from a permanent connector'),
 'S58': ('DSG.ordered_choice_nodes sorts set(choice_nodes)',
         'dv nodes sharing a name (told apart by idx) / equal ordering keys; rebuilt in another process or with other ids'),
 'S59': ('run_timeout: (success, value) pair replaced by isinstance(result, BaseException)',
         'function that finishes in time and RETURNS an exception instance'),
 'S60': ('SupSelChoiceOptionMapping.resolve skips a choice that is not active yet and never revisits it',
         'nested supplementary choice whose option mapping was registered before its parent\'s'),
 'S61': ('fast.py::_iter_neighborhood: `0 < value` instead of `0 <= value` (option 0 never proposed as a repair)',
         'FAST encoder, infeasible requested combination whose every feasible repair moves a choice DOWN to option 0'),
 'S62': ('DSG.initialize_choices returns self.resolve_single_selection_choices() instead of the pruned copy',
         'incompatibility between a node confirmed from the start nodes without passing a choice and a node that exists only under an option'),
 'S65': ('GraphProcessor.get_graph: connection-graph cache key without the values of earlier connection choices',
         '>= 2 connection choices active together, decode (k1=a,k2=b) then (k1=a\',k2=b) on one processor'),
 'S66': ('get_mod_nodes_remove_incompatibilities memoises derived edges per deriving node in the shared influence-matrix cache',
         'node shared by two options x1,x2 carrying a choice, an earlier-evaluated option incompatible with both, a later one with only one'),
 'S68': ('DSG.get_for_adjusted passes the constraint list without copying',
         'graph that already holds a constraint, copied, second constraint added on the COPY: the original reports it too'),
 'S71': ('get_assignment_encoding_args renumbers only duplicate existence patterns',
         'grouping node whose different member subsets give the same combined degree (duplicate pattern) followed by another conditional connector'),
 'S74': ('fast.py::_iter_neighborhood: walk stops when ONE direction leaves the option range (`or` for `and`)',
         'FAST encoder, choice with >= 3-4 options whose near options are ruled out (PERMUTATION over 4-option choices, vector [0,0,0])'),
 'S78': ('DSG.fingerprint() memoised on the object (key: node/edge/start/constraint counts), travels with the pickle',
         'fingerprint()/is_same() called before pickling, restored under another hash seed (or a size-preserving in-place edit)'),
 'S40': ('SupDSG.resolve memoised per set of existing source node names',
         'two source architectures with the same node set and different selections resolved on one SupDSG'),
}


def main():
    rows = []
    for d in sorted(glob.glob('/verif/seeded/S*')):
        sid = os.path.basename(d)
        mp = os.path.join(d, 'meta.json')
        if not os.path.exists(mp):
            continue
        m = json.load(open(mp))
        if sid in S:
            m['change'], m['needs'] = S[sid]
            json.dump(m, open(mp, 'w'), indent=1)
        det = ', '.join(x.split(':')[0] for x in m.get('detected_by', [])) or '**missed**'
        ok = m.get('suite_passes', ' failed' not in (m.get('test_suite_with_change') or ''))
        rows.append(f"| {sid} | {m['property']} | {m.get('change', '')} | {m.get('needs', '')} | {det} |" + ('' if ok else ' (suite fails: rejected)'))
    print('| id | property | change | needs, to manifest | caught by (quick tier) |')
    print('|---|---|---|---|---|')
    print('\n'.join(rows))


if __name__ == '__main__':
    main()
