#!/venv/bin/python
"""
Writes the 'change' / 'needs' summaries into seeded/<id>/meta.json and prints the markdown table used in DESIGN.md 0.5.
    tools/seed_table.py            -> table on stdout (and meta.json files updated)
"""
import json, os, glob

S = {
 'S01': ('complete.py::_find_correct_opt_idx: the closest-combination correction aliases the shared set of possible combinations',
         'complete encoder, a choice constraint that leaves value combinations of the first independent scenario missing, a vector hitting one, and one more scenario processed afterwards'),
 'S03': ('GraphProcessor.get_graph: graph-cache key forgets all but the last connection choice',
         '>= 3 connection choices active together; two decodes on one processor that agree on the last two choices and differ in an earlier one'),
 'S04': ('GraphProcessor.fix_des_var clears only three of the four cached functions',
         'an additional design-variable node that is fixed/released, same processor queried with_fixed=True in two fixed states'),
 'S05': ('fast.py::get_graph: imputation-cache lookup moved before the exclude test',
         'FAST encoder, infeasible combination detected while building, history decode(v) / fix the variable the imputation changed / decode again'),
 'S06': ('incompatibility.py: `or`->`and` in get_confirmed_incompatibility_edges + rebinding instead of in-place update of removed_edges (two cooperating sites)',
         'option K that derives A and has a nested choice all of whose options derive Z, A incompatible with Z, K confirmed through get_for_apply_selection_choice'),
 'S07': ('AssignmentManager._mark_inactive memoises inactive indices per matrix index only',
         'conditionally existing connectors (several existence patterns in one manager), grouped eager encoder, designs of two patterns decoded through one manager'),
 'S08': ('grouping-node degree refresh moved into the conditional-existence helper',
         'grouping connector with conditional members, two live graphs with different member sets, connection sets read from the older graph before feasibility'),
 'S09': ('iter_n_sources_targets forwards the existence filter and caches the partial table',
         '>= 2 existence patterns, a filtered enumeration as FIRST access of a cold cache, then any other enumeration/count'),
 'S10': ('CombiningPatternEncoder: per-instance min/max table became a class attribute',
         'two collapsed 1x1 combining encoders alive together with different ranges, the older one used again'),
 'S11': ('ConnectionChoiceNode caches its matrix generator keyed by the connector lists',
         'grouping node with conditional members, graph-level API used on instances of two scenarios in one process'),
 'S12': ('MatrixGenSettings.get_cache_key sorts the per-pattern hashes',
         'two settings that differ only in the ORDER of their existence patterns sharing a cache directory'),
 'S13': ('get_valid_idx_combinations compares neighbouring columns only',
         'constraint over >= 3 choices with an inactive member BETWEEN two active ones, complete encoder'),
 'S14': ('fast.py: partial-graph cache keyed by the vector prefix instead of the options taken',
         'nested choice applied before a later same-level choice; two decodes on one processor differing only in the nested choice'),
 'S15': ('fixed-combination mask computed with the variable index instead of the choice index',
         'COMPLETE encoder, a forced selection choice (no variable) in front of the fixed selection variable'),
 'S16': ('DSG.__init__ drops the copy of the design-variable value dict',
         'two graphs deriving from one base graph and an observation that spans both (older instance re-read)'),
 'S17': ('evaluator keeps entries for metric nodes that are not part of the architecture',
         'conditional constraint metric, architecture without it, evaluator returning values for ALL metric nodes of the design space'),
 'S18': ('get_for_adjusted shares the constraint list between original and copy',
         'graph that ALREADY holds a constraint is copied, then a second constraint is added on one side'),
 'S19': ('thread.join(timeout=seconds) instead of an unbounded join',
         'worker that swallows the interrupt / blocks natively longer than the join timeout'),
 'S20': ('SupExistenceMapping.resolve iterates graph nodes instead of the declared mapping order',
         'existence mapping with >= 2 declared nodes that both exist, graph node order != declaration order'),
 'S21': ('GraphProcessor._get_des_vars: infeasibility mask overwritten per connection choice instead of accumulated',
         'complete encoder, >= 2 connection choices, an infeasible existence pattern on one that is not the last'),
 'S22': ('set_start_nodes reachability walk follows all successors (also incompatibility edges)',
         'non-derivable component containing a derivation cycle, referenced by an incompatibility constraint from a derivable node'),
 'S23': ('GraphProcessor.get_graph: activeness of selection variables read at the variable position instead of the choice position',
         'forced selection choice (LINKED follower / incompatibility-determined) in front of a conditionally active choice'),
 'S24': ('get_all_discrete_x builds the row->combination map after filtering',
         'a combination dropped by the infeasible/fixed filter that is not the last, followed by a combination with a dv node or a multi-matrix pattern'),
 'S25': ('get_graph no longer marks a freshly cached connection instance as cached (defensive copy skipped)',
         '>= 2 active connection choices, no dv node, history decode(0,0) / decode(0,1) / mutate the returned instance / decode(0,1)'),
 'S26': ('get_mod_nodes_remove_incompatibilities keeps one confirmed incompatibility edge per source node',
         'one node in >= 2 incompatibility constraints whose partners are derived below options of other choices; graph-level API'),
 'S27': ('same change as S23 (offered for C07)', 'as S23; COMPLETE reports a non-existing choice active with value -1'),
 'S28': ('DSG.__init__: `(values or {}).copy()` -> `values or {}` for both value dicts',
         'source graph that already HOLDS a stored value is copied / derived from, then a value is stored on either side'),
 'S29': ('NodeExistence effective settings: an overridden connector loses its no-repeat flag',
         'existence pattern with a degree override on a non-repeatable connector, override value >= 2, repeatable opposite connector'),
 'S30': ('LazyFirstImputer memo keyed by the variable layout instead of the existence pattern',
         'non-default first-imputer, two existence patterns with equal variable layout and different valid sets, imputation in pattern A before B'),
 'S31': ('ConnectorDegreeGroupingNode.get_combined_deg returns the range min-sum..max-sum',
         'grouping node with >= 2 present members, one with a NON-CONTIGUOUS degree list ([0,2], [1,3])'),
 'S32': ('same site as S09 (offered for C12): partial _iter_n table persisted',
         'as S09, followed by cached selection: coding raises / misses connection sets'),
 'S33': ('get_constraint_pre_removed_options: `all permanent` guard became `any permanent`',
         'constraint over a MIX of permanent and conditional choices (UNORDERED_NOREPL / PERMUTATION)'),
 'S34': ('GraphProcessor._excluded_cache became a class-level set shared by all processors',
         'one process: a FAST processor that excludes vectors, then another design space of the same shape decoded with FAST'),
 'S35': ('_get_all_des_var_values merges fixed values with list.insert in fixing order',
         '>= 2 variables fixed, the higher index fixed first (or fix, fix, free, re-fix)'),
 'S36': ('set_des_var_value stores the corrected value but propagates the raw value to linked nodes',
         '>= 2 discrete dv nodes under a LINKED constraint, out-of-range / negative / non-integer input, partner node read'),
 'S37': ('_get_metrics: declared type of the previous metric leaks to an undeclared one',
         '>= 2 metrics, a declared one sorting before an undeclared ambiguous one'),
 'S38': ('DSG.__hash__ over frozenset(g.edges()) collapses parallel edges',
         'an edge gained or lost in parallel to an existing edge between the same nodes'),
 'S39': ('`raise _TimeLimitReached` moved inside `if thread.is_alive()`',
         'function finishing just past the limit while the limiter tears its pool down: None returned instead of TimeoutError'),
 'S40': ('SupDSG.resolve memoised per set of existing source node names',
         'two source architectures with the same node set and different selections resolved on one SupDSG'),
}


def main():
    rows = []
    for d in sorted(glob.glob('/verif/seeded/S*')):
        sid = os.path.basename(d)
        mp = os.path.join(d, 'meta.json')
        if not os.path.exists(mp):
            continue
        m = json.load(open(mp))
        if sid in S:
            m['change'], m['needs'] = S[sid]
            json.dump(m, open(mp, 'w'), indent=1)
        det = ', '.join(x.split(':')[0] for x in m.get('detected_by', [])) or '**missed**'
        ok = m.get('suite_passes', ' failed' not in (m.get('test_suite_with_change') or ''))
        rows.append(f"| {sid} | {m['property']} | {m.get('change', '')} | {m.get('needs', '')} | {det} |" + ('' if ok else ' (suite fails: rejected)'))
    print('| id | property | change | needs, to manifest | caught by (quick tier) |')
    print('|---|---|---|---|---|')
    print('\n'.join(rows))


if __name__ == '__main__':
    main()
