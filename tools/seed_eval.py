#!/venv/bin/python
"""
Evaluate one seeded change:  tools/seed_eval.py <seed id> <property> <worktree with MUTANT/> [check ids ...]
 1. copies MUTANT/{patch.diff,demo.py,notes.md} to /verif/seeded/<id>/
 2. confirms in a fresh scratch worktree of /repo HEAD: patch applies, pinned test suite passes with it,
    demo.py exits 1 with the patch and 0 without
 3. applies the patch to /repo, runs the listed checks (quick tier unless 'Cxx:thorough'), reverts /repo
 4. writes meta.json
"""
import json, os, shutil, subprocess, sys, tempfile, time

def sh(cmd, **kw):
    return subprocess.run(cmd, shell=True, capture_output=True, text=True, **kw)

def main():
    sid, prop, wt = sys.argv[1:4]
    checks = sys.argv[4:] or [prop]
    dst = f'/verif/seeded/{sid}'
    os.makedirs(dst, exist_ok=True)
    for f in ('patch.diff', 'demo.py', 'notes.md'):
        if os.path.exists(f'{wt}/MUTANT/{f}'):
            shutil.copy(f'{wt}/MUTANT/{f}', f'{dst}/{f}')
    meta = dict(id=sid, property=prop, ran=[])
    if os.path.exists(f'{dst}/meta.json'):
        try:
            meta.update({k: v for k, v in json.load(open(f'{dst}/meta.json')).items() if k in ('needs',)})
        except Exception:
            pass
    scratch = tempfile.mkdtemp(prefix='seedwt_', dir='/tmp')
    os.rmdir(scratch)
    r = sh(f'git -C /repo worktree add -q {scratch} HEAD')
    assert r.returncode == 0, r.stderr
    try:
        env = f'cd {scratch} && XDG_CACHE_HOME=$(mktemp -d) PYTHONHASHSEED=0 PYTHONPATH={scratch}'
        r = sh(f'{env} /venv/bin/python {dst}/demo.py')
        meta['demo_exit_original'] = r.returncode
        r = sh(f'cd {scratch} && git apply {dst}/patch.diff')
        meta['patch_applies_to_head'] = r.returncode == 0
        if r.returncode != 0:
            meta['apply_error'] = r.stderr[-300:]
        else:
            r = sh(f'{env} /venv/bin/python {dst}/demo.py')
            meta['demo_exit_changed'] = r.returncode
            meta['demo_output_changed'] = (r.stdout + r.stderr)[-600:]
            outs = []
            for hs in ('0', '1', '2'):   # the suite must pass whatever the hash seed (set iteration orders)
                r = sh(f'{env.replace("PYTHONHASHSEED=0", "PYTHONHASHSEED="+hs)} /venv/bin/python -m pytest -q -p no:cacheprovider --timeout=900 '
                       f'--continue-on-collection-errors adsg_core/tests '
                       f'--deselect adsg_core/tests/assign_enc/test_time_limiter.py::test_time_limiter 2>&1 | tail -1')
                if ' failed' in r.stdout:   # timing-sensitive tests fail now and then on a loaded machine: one retry
                    r2 = sh(f'{env.replace("PYTHONHASHSEED=0", "PYTHONHASHSEED="+hs)} /venv/bin/python -m pytest -q -p no:cacheprovider --timeout=900 '
                            f'--continue-on-collection-errors adsg_core/tests '
                            f'--deselect adsg_core/tests/assign_enc/test_time_limiter.py::test_time_limiter 2>&1 | tail -1')
                    if ' failed' not in r2.stdout:
                        r = r2
                outs.append(r.stdout.strip())
            meta['test_suite_with_change'] = outs[0]
            meta['test_suite_with_change_hashseeds_0_1_2'] = outs
            meta['suite_passes'] = all(' failed' not in o and ' error' not in o and ' passed' in o for o in outs)
    finally:
        sh(f'git -C /repo worktree remove --force {scratch}')
    if meta.get('patch_applies_to_head') and not meta.get('suite_passes'):
        print('  REJECTED: the test suite does not pass with this change:', meta.get('test_suite_with_change_hashseeds_0_1_2'))
    if meta.get('patch_applies_to_head') and meta.get('suite_passes'):
        assert sh('git -C /repo status --porcelain -uno').stdout.strip() == '', 'repo not clean'
        r = sh(f'git -C /repo apply {dst}/patch.diff')
        assert r.returncode == 0, r.stderr
        try:
            for c in checks:
                cid, _, tier = c.partition(':')
                tier = tier or 'quick'
                t0 = time.time()
                r = sh(f'cd /verif && ./check {cid} {tier}')
                viol = [l for l in r.stdout.splitlines() if l.startswith('VIOLATION')]
                kinds = sorted({l.split('kind=')[1].split(' ')[0] for l in r.stdout.splitlines() if l.strip().startswith('kind=')})
                meta['ran'].append(dict(check=cid, tier=tier, exit=r.returncode, violation_lines=len(viol), kinds=kinds,
                                        broken=[l for l in r.stdout.splitlines() if l.startswith('BROKEN')][:3],
                                        wall_s=round(time.time()-t0, 1)))
                print(f'  {cid} {tier}: exit={r.returncode} violations={len(viol)} kinds={kinds[:4]}')
        finally:
            sh('git -C /repo checkout -- .')
            sh('cd /verif && git checkout -- evidence 2>/dev/null')
    meta['detected_by'] = [f"{x['check']}:{x['tier']}" for x in meta['ran'] if x['exit'] == 1 and x['violation_lines'] > 0]
    json.dump(meta, open(f'{dst}/meta.json', 'w'), indent=1)
    print(json.dumps({k: v for k, v in meta.items() if k != 'ran' and k != 'demo_output_changed'}, indent=1))

if __name__ == '__main__':
    main()
